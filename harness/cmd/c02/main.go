// Harness for C02 (ABI encoding equals the Solidity ABI specification; inputs exact or rejected).
// Generates type trees, values and external representations (package abigen), runs pkg/abi on them
// under recover(), and writes Coq case files that Abi/RunC02.v evaluates against the model
// (Abi/InputModel.v, Abi/EncModel.v) and the specification (Abi/Spec.v).
package main

import (
	"encoding/hex"
	"encoding/json"
	"flag"
	"fmt"
	"io"
	"math"
	"math/big"
	"os"
	"path/filepath"
	"strings"

	"github.com/hyperledger/firefly-signer/pkg/abi"
	"github.com/sirupsen/logrus"
	"verifharness/abigen"
	"verifharness/cv"
)

type desc struct {
	ID     int    `json:"id"`
	Kind   string `json:"kind"`
	Mode   string `json:"mode"`
	Types  string `json:"types"`
	ABI    string `json:"abi,omitempty"`
	Input  string `json:"input"`
	JSON   string `json:"json_input,omitempty"`
	Oracle string `json:"oracle"`
	Value  string `json:"denoted_value,omitempty"`
	Impl   string `json:"impl"`
	Key    string `json:"key,omitempty"`
}

type H struct {
	w      *cv.Writer
	st     *cv.Stats
	seen   map[string]bool
	id     int
	only   int // replay: emit only this id (-1 = all)
	curDir string
	kept   []kept // round 3: returned buffers, checked again at the end of the run
	ktrees []keptTree
}

const (
	modeValues = "values"        // ParameterArray.EncodeABIDataValues
	modeJSON   = "json"          // ParameterArray.EncodeABIDataJSON
	modeCallV  = "call-values"   // Entry.EncodeCallDataValues
	modeCallJ  = "call-json"     // Entry.EncodeCallDataJSON
	modeParse  = "parse"         // ParameterArray.ParseExternalData -> tree
)

func clsOf(err error, panicked bool) int {
	switch {
	case panicked:
		return 2
	case err != nil:
		return 1
	}
	return 0
}

func (h *H) current(d *desc) {
	b, _ := json.Marshal(d)
	os.WriteFile(filepath.Join(h.curDir, "current_case.json"), b, 0o644)
}

// encOpts (round 3) lets a stream share implementation objects between cases and hand the
// implementation a Go value other than x.Go() (typed containers, pointers, named types ...: the
// model always sees x).
type encOpts struct {
	poke   bool               // use the shared objects for a decode and two serializations between the request and its repetition
	mk     func() interface{} // builds the Go input (default x.Go); called a second time for the snapshot
	pa     abi.ParameterArray // shared parameter array (default: a fresh one per case)
	entry  *abi.Entry         // shared entry for the call-data modes
	always bool               // stateful stream: run the implementation in replay mode even when the case is not the selected one
}

// runOn executes the implementation entry point for the mode on the given objects.
func runOn(mode string, pa abi.ParameterArray, e *abi.Entry, goVal interface{}, jsonText string) (out []byte, prefix []byte, cls int, msg string) {
	var err error
	panicked := false
	func() {
		defer func() {
			if r := recover(); r != nil {
				panicked = true
				msg = fmt.Sprintf("panic: %v", r)
			}
		}()
		switch mode {
		case modeValues:
			out, err = pa.EncodeABIDataValues(goVal)
		case modeJSON:
			out, err = pa.EncodeABIDataJSON([]byte(jsonText))
		case modeCallV, modeCallJ:
			if e == nil {
				e = &abi.Entry{Type: abi.Function, Name: "f", Inputs: pa}
			}
			if mode == modeCallV {
				out, err = e.EncodeCallDataValues(goVal)
			} else {
				out, err = e.EncodeCallDataJSON([]byte(jsonText))
			}
			if err == nil {
				prefix = []byte(e.FunctionSelectorBytes())
			}
		}
	}()
	if err != nil {
		msg = err.Error()
	}
	return out, prefix, clsOf(err, panicked), msg
}

func sigOf(ts []*abigen.Type) string {
	p := make([]string, len(ts))
	for i, t := range ts {
		p[i] = t.Canonical()
		if t.Name != "" {
			p[i] += " " + t.Name
		}
	}
	return "(" + strings.Join(p, ",") + ")"
}

// addEnc runs one encode case.  v != nil: the input denotes the well-typed value v (oracle OValue);
// reject: the input must be refused; neither: model comparison only.
func (h *H) addEnc(kind, mode string, ts []*abigen.Type, x *abigen.Ext, v *abigen.Value, reject bool, key string) {
	h.addEncO(kind, mode, ts, x, v, reject, key, encOpts{})
}

func (h *H) addEncO(kind, mode string, ts []*abigen.Type, x *abigen.Ext, v *abigen.Value, reject bool, key string, o encOpts) {
	h.id++
	selected := h.only < 0 || h.id == h.only
	if !selected && !o.always {
		return
	}
	jsonText := ""
	xm := x // what the model sees
	if mode == modeJSON || mode == modeCallJ {
		jsonText = x.JSON()
		var ok bool
		xm, ok = abigen.FromJSON([]byte(jsonText))
		if !ok {
			panic("generator produced invalid JSON: " + jsonText)
		}
	}
	abiJSON, _ := json.Marshal(abigen.Params(ts))
	d := &desc{ID: h.id, Kind: kind, Mode: mode, Types: sigOf(ts), ABI: string(abiJSON), Input: x.Describe(), JSON: jsonText, Key: key}
	if len(d.ABI) > 3000 {
		d.ABI = ""
	}
	h.current(d)
	mk := o.mk
	if mk == nil {
		mk = x.Go
	}
	pa := o.pa
	if pa == nil {
		pa = abigen.Params(ts)
	}
	goVal := mk()
	out, prefix, cls, msg := runOn(mode, pa, o.entry, goVal, jsonText)
	h.afterCall(d, mode, pa, o.entry, goVal, mk, jsonText, out, cls, o.poke, len(prefix))
	h.checkTree(d, pa, ts)
	if !selected {
		return
	}
	oracle := "ONone"
	d.Oracle = "none"
	switch {
	case v != nil:
		oracle = "(OValue " + v.CoqVal() + ")"
		d.Oracle = "value"
		d.Value = v.Describe()
	case reject:
		oracle = "OReject"
		d.Oracle = "reject"
	}
	switch cls {
	case 0:
		d.Impl = "ok 0x" + hex.EncodeToString(out)
		if len(d.Impl) > 1500 {
			d.Impl = d.Impl[:1500] + "..."
		}
	default:
		d.Impl = msg
	}
	h.st.Hit("kind:" + kind)
	h.st.Hit("mode:" + mode)
	h.st.Hit(fmt.Sprintf("class:%s/%d", d.Oracle, cls))
	term := fmt.Sprintf("CEnc %s %s %s %d %s %s", abigen.CoqBytes(prefix), abigen.CoqTcompList(ts), xm.Coq(), cls, abigen.CoqBytes(out), oracle)
	if !h.seen[term] {
		h.seen[term] = true
		h.st.Distinct++
	}
	h.w.Add(term, d)
	if len(h.st.Samples) < 6 && (h.id%97 == 3) {
		h.st.Samples = append(h.st.Samples, d)
	}
}

// addParse compares the ComponentValue tree built by ParseExternalData.
func (h *H) addParse(kind string, ts []*abigen.Type, x *abigen.Ext) {
	h.addParseO(kind, ts, x, nil, false)
}

func (h *H) addParseO(kind string, ts []*abigen.Type, x *abigen.Ext, pa abi.ParameterArray, always bool) {
	h.id++
	selected := h.only < 0 || h.id == h.only
	if !selected && !always {
		return
	}
	if pa == nil {
		pa = abigen.Params(ts)
	}
	d := &desc{ID: h.id, Kind: kind, Mode: modeParse, Types: sigOf(ts), Input: x.Describe(), Oracle: "none"}
	h.current(d)
	var cvt *abi.ComponentValue
	var err error
	panicked := false
	func() {
		defer func() {
			if r := recover(); r != nil {
				panicked = true
				d.Impl = fmt.Sprintf("panic: %v", r)
			}
		}()
		cvt, err = pa.ParseExternalData(x.Go())
	}()
	cls := clsOf(err, panicked)
	tree := "None"
	if cls == 0 {
		// printed before the Go-side oracles use the tree
		tree = "(Some " + abigen.CoqCval(cvt, abigen.Tup(ts...)) + ")"
		d.Impl = "ok"
		h.afterParse(d, pa, x.Go, cvt)
	} else if err != nil {
		d.Impl = err.Error()
	}
	if !selected {
		return
	}
	h.st.Hit("kind:" + kind)
	h.st.Hit("mode:" + modeParse)
	h.st.Hit(fmt.Sprintf("class:parse/%d", cls))
	term := fmt.Sprintf("CParse %s %s %d %s", abigen.CoqTcompList(ts), x.Coq(), cls, tree)
	if !h.seen[term] {
		h.seen[term] = true
		h.st.Distinct++
	}
	h.w.Add(term, d)
}

// addTree encodes a hand-built ComponentValue tree (observe_at: ComponentValue.EncodeABIData).
func (h *H) addTree(kind string, c *abi.ComponentValue, t *abigen.Type, note string) {
	h.id++
	if h.only >= 0 && h.id != h.only {
		return
	}
	d := &desc{ID: h.id, Kind: kind, Mode: "tree", Types: t.Canonical(), Input: note, Oracle: "none"}
	h.current(d)
	var out []byte
	var err error
	panicked := false
	func() {
		defer func() {
			if r := recover(); r != nil {
				panicked = true
				d.Impl = fmt.Sprintf("panic: %v", r)
			}
		}()
		out, err = c.EncodeABIData()
	}()
	cls := clsOf(err, panicked)
	if cls == 0 {
		d.Impl = "ok 0x" + hex.EncodeToString(out)
	} else if err != nil {
		d.Impl = err.Error()
	}
	h.st.Hit("kind:" + kind)
	h.st.Hit(fmt.Sprintf("class:tree/%d", cls))
	term := fmt.Sprintf("CTree %s %d %s", abigen.CoqCval(c, t), cls, abigen.CoqBytes(out))
	if !h.seen[term] {
		h.seen[term] = true
		h.st.Distinct++
	}
	h.w.Add(term, d)
}

func one(t *abigen.Type) []*abigen.Type { return []*abigen.Type{t} }
func lst(xs ...*abigen.Ext) *abigen.Ext {
	if xs == nil {
		xs = []*abigen.Ext{}
	}
	return &abigen.Ext{Kind: abigen.XList, List: xs}
}
func xstr(s string) *abigen.Ext  { return &abigen.Ext{Kind: abigen.XStr, Text: s} }
func xjnum(s string) *abigen.Ext { return &abigen.Ext{Kind: abigen.XJNum, Text: s} }
func num(t *abigen.Type, z *big.Int) *abigen.Value {
	return &abigen.Value{T: t, Num: z}
}
func tupv(ts []*abigen.Type, vs ...*abigen.Value) *abigen.Value {
	return &abigen.Value{T: abigen.Tup(ts...), Elems: vs}
}

func inRange(t *abigen.Type, z *big.Int) bool {
	lo, hi := t.Range()
	return z.Cmp(lo) >= 0 && z.Cmp(hi) <= 0
}

// modeFor picks an entry point able to carry the external tree.
func modeFor(r *cv.Rand, x *abigen.Ext) string {
	if x.JSONable() {
		switch r.Intn(8) {
		case 0:
			return modeCallJ
		case 1:
			return modeCallV
		case 2, 3, 4:
			return modeJSON
		}
		return modeValues
	}
	if r.Intn(8) == 0 {
		return modeCallV
	}
	return modeValues
}

// ---------------------------------------------------------------------------------------------
// streams
// ---------------------------------------------------------------------------------------------

// every integer width x every boundary value and out-of-range neighbour x external representations
func (h *H) intBoundaries(r *cv.Rand, thorough bool) {
	var types []*abigen.Type
	for m := 8; m <= 256; m += 8 {
		types = append(types, abigen.U(m), abigen.I(m))
	}
	rot := 0
	for _, t := range types {
		in, out := abigen.IntBoundaries(t)
		for _, grp := range [][]*big.Int{in, out} {
			for _, z := range grp {
				ok := inRange(t, z)
				reprs := abigen.IntReprs
				if !thorough {
					// three representations per (width, value), rotating so that all are used evenly
					reprs = []string{abigen.IntReprs[rot%len(abigen.IntReprs)], abigen.IntReprs[(rot+4)%len(abigen.IntReprs)], abigen.IntReprs[(rot+7)%len(abigen.IntReprs)]}
					rot++
				}
				for _, rp := range reprs {
					x, can := abigen.IntExt(r, z, rp)
					if !can {
						continue
					}
					in := lst(x)
					mode := modeValues
					if in.JSONable() && r.Bool() {
						mode = modeJSON
					}
					h.st.Hit("int-repr:" + x.Repr)
					if ok {
						h.addEnc("int-boundary", mode, one(t), in, tupv(one(t), num(t, z)), false, "")
					} else {
						h.addEnc("int-out-of-range", mode, one(t), in, nil, true, "")
					}
				}
			}
		}
	}
}

// texts and Go numbers that are not (exactly) integers, and odd spellings
func (h *H) intTexts(r *cv.Rand) {
	types := []*abigen.Type{abigen.U(256), abigen.I(256), abigen.U(8), abigen.I(8), abigen.U(64), abigen.I(128)}
	long := "1." + strings.Repeat("0", 80) + "1"
	nonIntegral := []string{"1.5", "0.5", "-0.5", "1e-1", "15e-1", "0.1", "-1.5", "1.05e1", long, "100.000000001", "2.5E0", "1e-2147483649",
		strings.Repeat("9", 80) + ".5"}
	for _, t := range types {
		for _, s := range nonIntegral {
			h.addEnc("int-non-integral-text", modeValues, one(t), lst(xstr(s)), nil, true, "")
			h.addEnc("int-non-integral-text", modeJSON, one(t), lst(xjnum(s)), nil, true, "")
		}
	}
	// spellings outside the property's representations: model comparison only (with the integer
	// they denote for Go when there is one)
	odd := []string{"", " ", "abc", "0x", "0xzz", " 1", "1 ", "1e", "--1", "+-1", "1_000", "_1", "1_", "1__0", "0x_1f", "0_7", "0b101", "0B11", "0o17", "0O7",
		"017", "08", "09.0", "00", "-0", "+0", "-0x0", "0x0000000000000000000000000000000000000000000000000000000000000000001", "1p5", "1P-1", "0x1p5", "Inf", "-Inf", "+inf", "inf", "INF", "NaN", "nan",
		"1e400", "1e1000001", "1e-1000001", "0e99999999999", "1e99999999999999999999", "1e2147483648", ".5", "5.", ".", "1.2.3", "1e+2", "1E-0", "0.0", "-0.0", "1e0", "12e-1", "120e-1", "1.50e1",
		"0x1F", "0X1f", "0xABCDEFabcdef", "１２", "1\u0000", "true", "null", "1.0e2", "100e-2", "1e-0", "7e77", "1.15792089237316195423570985008687907853269984665640564039457584007913129639935e77", "1.15792089237316195423570985008687907853269984665640564039457584007913129639936e77"}
	for _, t := range types[:4] {
		for _, s := range odd {
			h.addEnc("int-odd-text", modeValues, one(t), lst(xstr(s)), nil, false, "")
		}
	}
	// JSON numbers in every JSON spelling (these must be valid JSON number literals)
	jn := []string{"0", "-0", "1", "-1", "255", "256", "1e2", "1E2", "1e+2", "2.55e2", "25.5e1", "2550e-1", "2551e-1", "0.0", "-0.0", "1.0", "1.00", "255.0", "255.5", "0e0", "1e0", "1e77", "1e78", "-1e77",
		"12345678901234567890123456789012345678901234567890123456789012345678901234567", "115792089237316195423570985008687907853269984665640564039457584007913129639935",
		"115792089237316195423570985008687907853269984665640564039457584007913129639936", "1.15792089237316195423570985008687907853269984665640564039457584007913129639935e77", "9007199254740993", "-9223372036854775809"}
	for _, t := range types {
		for _, s := range jn {
			h.addEnc("int-json-number", modeJSON, one(t), lst(xjnum(s)), nil, false, "")
		}
	}
	// Go float64 / float32 / big.Float: integral values must be exact (D02a: 2^63 and beyond), NaN
	// and infinities refused; non-integral ones are truncated by the code (not part of the property)
	f64s := []float64{0, 1, -1, 255, 256, 1 << 53, -(1 << 53), 1<<53 + 2, math.Pow(2, 62), math.Pow(2, 63), -math.Pow(2, 63), math.Pow(2, 63) + 2048, -math.Pow(2, 63) - 2048,
		math.Pow(2, 64), math.Pow(2, 64) - 2048, math.Pow(2, 100), -math.Pow(2, 100), math.Pow(2, 255), math.Pow(2, 256), 1e30, 1e77, 1e78, -1e77, math.MaxFloat64, 9.223372036854775e18, 1.8446744073709552e19}
	for _, t := range []*abigen.Type{abigen.U(256), abigen.I(256), abigen.U(64), abigen.I(64), abigen.U(128), abigen.I(72)} {
		for _, f := range f64s {
			z, _ := new(big.Float).SetFloat64(f).Int(nil)
			x := &abigen.Ext{Kind: abigen.XF64, F: f}
			if inRange(t, z) {
				h.addEnc("int-float64", modeValues, one(t), lst(x), tupv(one(t), num(t, z)), false, "")
			} else {
				h.addEnc("int-float64-out-of-range", modeValues, one(t), lst(x), nil, true, "")
			}
		}
		for _, f := range []float64{math.NaN(), math.Inf(1), math.Inf(-1)} {
			h.addEnc("int-float64-nan-inf", modeValues, one(t), lst(&abigen.Ext{Kind: abigen.XF64, F: f}), nil, true, "")
			h.addEnc("int-float32-nan-inf", modeValues, one(t), lst(&abigen.Ext{Kind: abigen.XF32, F: f}), nil, true, "")
		}
		for _, f := range []float64{1.5, -1.5, 0.99, 1e-300, 255.5, -0.5} {
			h.addEnc("int-float64-fraction", modeValues, one(t), lst(&abigen.Ext{Kind: abigen.XF64, F: f}), nil, false, "")
		}
		for _, f := range []float32{0, 1, -1, 16777216, 1 << 62, 1 << 63, -(1 << 63), 1 << 64, 1e30, 3.4e38} {
			z, _ := new(big.Float).SetFloat64(float64(f)).Int(nil)
			x := &abigen.Ext{Kind: abigen.XF32, F: float64(f)}
			if inRange(t, z) {
				h.addEnc("int-float32", modeValues, one(t), lst(x), tupv(one(t), num(t, z)), false, "")
			} else {
				h.addEnc("int-float32-out-of-range", modeValues, one(t), lst(x), nil, true, "")
			}
		}
		// big.Float: integral exact; fraction truncated (comparison only); infinity and typed-nil pointers (comparison only)
		for _, s := range []string{"0", "1", "-1", "1e30", "12345678901234567890123456789", "1.5", "-2.5", "1e-5"} {
			f, _, _ := big.ParseFloat(s, 10, 200, big.ToNearestEven)
			h.addEnc("int-big.Float", modeValues, one(t), lst(&abigen.Ext{Kind: abigen.XBigFloat, Float: f}), nil, false, "")
		}
	}
	h.addEnc("int-big.Float-inf", modeValues, one(abigen.U(256)), lst(&abigen.Ext{Kind: abigen.XBigFloat, Float: new(big.Float).SetInf(false)}), nil, false, "")
	h.addEnc("int-big.Int-nil", modeValues, one(abigen.I(256)), lst(&abigen.Ext{Kind: abigen.XBigInt}), nil, false, "")
	// sized Go integers at the ends of their ranges, into wide and narrow ABI types
	for _, k := range abigen.IntKinds {
		lo, hi := abigen.IntKindRange(k)
		for _, z := range []*big.Int{lo, hi, big.NewInt(0)} {
			for _, t := range []*abigen.Type{abigen.U(256), abigen.I(256), abigen.U(64), abigen.I(64), abigen.U(8), abigen.I(8), abigen.U(32), abigen.I(16)} {
				x := &abigen.Ext{Kind: abigen.XInt, IKind: k, Big: z}
				h.st.Hit("int-repr:sized-int:" + k)
				if inRange(t, z) {
					h.addEnc("int-sized", modeValues, one(t), lst(x), tupv(one(t), num(t, z)), false, "")
				} else {
					h.addEnc("int-sized-out-of-range", modeValues, one(t), lst(x), nil, true, "")
				}
			}
		}
	}
	// wrong kinds of value for an integer
	for _, x := range []*abigen.Ext{{Kind: abigen.XNil}, {Kind: abigen.XBool, Bool: true}, lst(), {Kind: abigen.XMap}, {Kind: abigen.XBytes, Bytes: []byte{1}}, {Kind: abigen.XOther}} {
		h.addEnc("int-wrong-kind", modeValues, one(abigen.U(256)), lst(x), nil, false, "")
		h.addEnc("int-wrong-kind", modeValues, one(abigen.I(8)), lst(x), nil, false, "")
	}
}

// bytes<M>, bytes, string, function, address, bool: every M, exact and wrong lengths, spellings
func (h *H) elementaryOthers(r *cv.Rand) {
	for m := 1; m <= 32; m++ {
		t := abigen.BN(m)
		b := r.Bytes(m)
		v := &abigen.Value{T: t, Bytes: b}
		for _, x := range []*abigen.Ext{xstr("0x" + hex.EncodeToString(b)), xstr(hex.EncodeToString(b)), xstr(strings.ToUpper(hex.EncodeToString(b))), {Kind: abigen.XBytes, Bytes: b}} {
			mode := modeValues
			if x.JSONable() && r.Bool() {
				mode = modeJSON
			}
			h.addEnc("bytesM-exact", mode, one(t), lst(x), tupv(one(t), v), false, "")
		}
		// too short: refused; longer: the code takes the first M bytes (outside the quantifier: comparison only)
		if m > 1 {
			h.addEnc("bytesM-short", modeValues, one(t), lst(xstr("0x"+hex.EncodeToString(b[:m-1]))), nil, false, "")
		}
		h.addEnc("bytesM-empty", modeValues, one(t), lst(xstr("")), nil, false, "")
		h.addEnc("bytesM-long", modeValues, one(t), lst(xstr("0x"+hex.EncodeToString(append(append([]byte{}, b...), 0xaa)))), nil, false, "")
	}
	for _, n := range []int{0, 1, 2, 31, 32, 33, 63, 64, 65, 95, 96, 97, 1000, 1024} {
		b := r.Bytes(n)
		t := abigen.Byts()
		for _, x := range []*abigen.Ext{xstr("0x" + hex.EncodeToString(b)), xstr(hex.EncodeToString(b)), {Kind: abigen.XBytes, Bytes: b}} {
			h.st.Hit(fmt.Sprintf("dyn-len:%d", n))
			h.addEnc("bytes-dyn", modeFor(r, lst(x)), one(t), lst(x), tupv(one(t), &abigen.Value{T: t, Bytes: b}), false, "")
		}
		s := abigen.RandText(r, n)
		ts := abigen.Str()
		h.addEnc("string", modeFor(r, lst(xstr(s))), one(ts), lst(xstr(s)), tupv(one(ts), &abigen.Value{T: ts, Bytes: []byte(s)}), false, "")
		h.addEnc("string-as-bytes", modeValues, one(ts), lst(&abigen.Ext{Kind: abigen.XBytes, Bytes: []byte(s)}), tupv(one(ts), &abigen.Value{T: ts, Bytes: []byte(s)}), false, "")
	}
	for _, s := range []string{"0x0", "0xabc", "zz", "0x0x00", "0X00", " 00", "00 ", "0xGG"} {
		h.addEnc("bytes-bad-hex", modeValues, one(abigen.Byts()), lst(xstr(s)), nil, false, "")
		h.addEnc("bytes-bad-hex", modeValues, one(abigen.BN(1)), lst(xstr(s)), nil, false, "")
		h.addEnc("bytes-bad-hex", modeValues, one(abigen.Addr()), lst(xstr(s)), nil, false, "")
	}
	// function = 24 bytes
	{
		t := abigen.Func()
		b := r.Bytes(24)
		h.addEnc("function", modeJSON, one(t), lst(xstr("0x"+hex.EncodeToString(b))), tupv(one(t), &abigen.Value{T: t, Bytes: b}), false, "")
		h.addEnc("function", modeValues, one(t), lst(&abigen.Ext{Kind: abigen.XBytes, Bytes: b}), tupv(one(t), &abigen.Value{T: t, Bytes: b}), false, "")
		h.addEnc("function-short", modeValues, one(t), lst(xstr(hex.EncodeToString(b[:23]))), nil, false, "")
		h.addEnc("function-long", modeValues, one(t), lst(xstr(hex.EncodeToString(append(b, 1)))), nil, false, "")
	}
	// address: exactly 20 bytes; 19 / 21 bytes are outside the quantifier (comparison only)
	{
		t := abigen.Addr()
		for _, b := range [][]byte{make([]byte, 20), r.Bytes(20), bytesOf(0xff, 20), append([]byte{0}, r.Bytes(19)...), append(r.Bytes(19), 0)} {
			z := new(big.Int).SetBytes(b)
			for _, x := range []*abigen.Ext{xstr("0x" + hex.EncodeToString(b)), xstr(hex.EncodeToString(b)), xstr(strings.ToUpper(hex.EncodeToString(b))), {Kind: abigen.XBytes, Bytes: b}} {
				mode := modeValues
				if x.JSONable() && r.Bool() {
					mode = modeJSON
				}
				h.addEnc("address", mode, one(t), lst(x), tupv(one(t), num(t, z)), false, "")
			}
		}
		h.addEnc("address-19", modeValues, one(t), lst(xstr("0x"+hex.EncodeToString(r.Bytes(19)))), nil, false, "")
		h.addEnc("address-21", modeValues, one(t), lst(xstr("0x01"+hex.EncodeToString(r.Bytes(20)))), nil, false, "")
		h.addEnc("address-21-leading-zero", modeValues, one(t), lst(xstr("0x00"+hex.EncodeToString(r.Bytes(20)))), nil, false, "")
		h.addEnc("address-number", modeJSON, one(t), lst(xjnum("12")), nil, false, "")
	}
	// bool
	{
		t := abigen.Boolean()
		for _, c := range []struct {
			x *abigen.Ext
			v int64
		}{{&abigen.Ext{Kind: abigen.XBool, Bool: true}, 1}, {&abigen.Ext{Kind: abigen.XBool, Bool: false}, 0}, {xstr("true"), 1}, {xstr("TRUE"), 1}, {xstr("tRuE"), 1}, {xstr("false"), 0}} {
			mode := modeValues
			if r.Bool() {
				mode = modeJSON
			}
			h.addEnc("bool", mode, one(t), lst(c.x), tupv(one(t), num(t, big.NewInt(c.v))), false, "")
		}
		for _, x := range []*abigen.Ext{xstr("1"), xstr("yes"), xstr(""), xstr("true "), xstr("ｔrue"), xjnum("1"), xjnum("0"), {Kind: abigen.XNil}, {Kind: abigen.XInt, IKind: "KInt", Big: big.NewInt(1)}, lst()} {
			mode := modeValues
			if x.JSONable() {
				mode = modeJSON
			}
			h.addEnc("bool-other", mode, one(t), lst(x), nil, false, "")
		}
	}
}

func bytesOf(b byte, n int) []byte {
	out := make([]byte, n)
	for i := range out {
		out[i] = b
	}
	return out
}

// structured: systematic shapes and random trees, well-typed values in random representations
func (h *H) structured(r *cv.Rand, nRandom int, shapeDepth int) {
	for _, t := range abigen.Shapes(shapeDepth) {
		for rep := 0; rep < 2; rep++ {
			ts := []*abigen.Type{t.Named("p"), abigen.U(32).Named("q")}
			if rep == 1 {
				ts = []*abigen.Type{abigen.BN(3), t}
			}
			v := abigen.GenValue(r, abigen.Tup(ts...), abigen.VOpts{MaxArr: 2})
			x := abigen.ToExt(r, v, abigen.ReprOpts{GoValues: rep == 1, TupleObject: 2 - rep})
			h.st.Hit(fmt.Sprintf("shape-depth:%d", t.Depth()))
			h.addEnc("shape", modeFor(r, x), ts, x, v, false, "")
		}
	}
	for i := 0; i < nRandom; i++ {
		k := 1 + r.Intn(4)
		ts := make([]*abigen.Type, k)
		for j := range ts {
			ts[j] = abigen.GenType(r, 1+r.Intn(4), abigen.Opts{})
			if r.Intn(3) != 0 {
				ts[j].Name = fmt.Sprintf("p%d", j)
			}
		}
		root := abigen.Tup(ts...)
		v := abigen.GenValue(r, root, abigen.VOpts{BigData: i%40 == 0})
		goVals := r.Bool()
		x := abigen.ToExt(r, v, abigen.ReprOpts{GoValues: goVals})
		h.st.Hit(fmt.Sprintf("tree-depth:%d", root.Depth()))
		if root.Dynamic() {
			h.st.Hit("tree:dynamic")
		} else {
			h.st.Hit("tree:static")
		}
		mode := modeFor(r, x)
		h.addEnc("random-tree", mode, ts, x, v, false, "")
		if i%4 == 0 {
			h.addParse("random-tree-parse", ts, x)
		}
		// the same value with one integer leaf pushed just out of range: must be refused
		if leaves := v.NumericLeaves(); len(leaves) > 0 && i%3 == 0 {
			lf := leaves[r.Intn(len(leaves))]
			_, out := abigen.IntBoundaries(lf.T)
			old := lf.Num
			lf.Num = out[r.Intn(2)]
			x2 := abigen.ToExt(r, v, abigen.ReprOpts{GoValues: goVals})
			h.addEnc("random-tree-one-leaf-out-of-range", modeFor(r, x2), ts, x2, nil, true, "")
			lf.Num = old
		}
	}
}

// arity errors: fixed arrays and tuples with one element too few / too many, objects with a missing key
func (h *H) arity(r *cv.Rand, n int) {
	for i := 0; i < n; i++ {
		inner := abigen.GenType(r, r.Intn(2), abigen.Opts{})
		var t *abigen.Type
		tupleCase := i%2 == 0
		if tupleCase {
			t = abigen.Tup(inner.Named("a"), abigen.U(8).Named("b"), abigen.Str())
		} else {
			t = abigen.Arr(inner, 1+r.Intn(3))
		}
		// place it at a random position in a wrapper
		var ts []*abigen.Type
		switch r.Intn(4) {
		case 0:
			ts = one(t)
		case 1:
			ts = []*abigen.Type{abigen.U(256), t}
		case 2:
			ts = one(abigen.Dyn(t))
		default:
			ts = one(abigen.Tup(abigen.Boolean().Named("z"), t.Named("w")))
		}
		v := abigen.GenValue(r, abigen.Tup(ts...), abigen.VOpts{MaxArr: 2})
		// find the Ext node(s) of t and damage one
		for _, dmg := range []string{"drop", "add", "missing-key", "extra-key"} {
			x := abigen.ToExt(r, v, abigen.ReprOpts{TupleObject: map[bool]int{true: 1, false: 2}[dmg == "missing-key" || dmg == "extra-key"]})
			hit := damage(r, x, v, t, dmg)
			if !hit {
				continue
			}
			switch dmg {
			case "extra-key":
				h.addEnc("arity-extra-key-ignored", modeFor(r, x), ts, x, v, false, "")
			default:
				h.addEnc("arity-"+dmg, modeFor(r, x), ts, x, nil, true, "")
			}
		}
	}
	// top-level arity
	ts := []*abigen.Type{abigen.U(8), abigen.Boolean()}
	h.addEnc("arity-top", modeJSON, ts, lst(xjnum("1")), nil, true, "")
	h.addEnc("arity-top", modeJSON, ts, lst(xjnum("1"), &abigen.Ext{Kind: abigen.XBool}, xjnum("3")), nil, true, "")
	h.addEnc("arity-top", modeJSON, ts, lst(), nil, true, "")
	h.addEnc("arity-top-object-unnamed", modeJSON, ts, &abigen.Ext{Kind: abigen.XMap, Keys: []string{"0", "1"}, Vals: []*abigen.Ext{xjnum("1"), {Kind: abigen.XBool, Bool: true}}},
		tupv(ts, num(ts[0], big.NewInt(1)), num(ts[1], big.NewInt(1))), false, "")
	h.addEnc("arity-top-object-missing", modeJSON, ts, &abigen.Ext{Kind: abigen.XMap, Keys: []string{"0"}, Vals: []*abigen.Ext{xjnum("1")}}, nil, true, "")
	h.addEnc("not-array-or-object", modeJSON, ts, xjnum("1"), nil, false, "")
	h.addEnc("not-array-or-object", modeJSON, ts, xstr("ab"), nil, false, "")
	h.addEnc("not-array-or-object", modeJSON, ts, &abigen.Ext{Kind: abigen.XNil}, nil, false, "")
	h.addEnc("array-not-slice", modeJSON, one(abigen.Dyn(abigen.U(8))), lst(xjnum("1")), nil, false, "")
	h.addEnc("array-not-slice", modeJSON, one(abigen.Arr(abigen.U(8), 1)), lst(&abigen.Ext{Kind: abigen.XMap, Keys: []string{"0"}, Vals: []*abigen.Ext{xjnum("1")}}), nil, false, "")
	// []byte where an array is expected: reflect walks it as a slice of uint8
	h.addEnc("array-from-[]byte", modeValues, one(abigen.Dyn(abigen.U(8))), lst(&abigen.Ext{Kind: abigen.XBytes, Bytes: []byte{1, 2, 255}}), nil, false, "")
	h.addEnc("array-from-[]byte", modeValues, one(abigen.Arr(abigen.I(8), 2)), lst(&abigen.Ext{Kind: abigen.XBytes, Bytes: []byte{1, 200}}), nil, false, "")
}

// damage finds the first Ext node corresponding to type t inside (x, v) and changes its arity.
func damage(r *cv.Rand, x *abigen.Ext, v *abigen.Value, t *abigen.Type, how string) bool {
	if v.T == t || (v.T.Kind == t.Kind && v.T.Canonical() == t.Canonical() && v.T.Kind >= abigen.FixedArr && sameFields(v.T, t)) {
		switch how {
		case "drop":
			if x.Kind == abigen.XList && len(x.List) > 0 {
				x.List = x.List[:len(x.List)-1]
				return true
			}
		case "add":
			if x.Kind == abigen.XList && len(x.List) > 0 {
				x.List = append(x.List, x.List[len(x.List)-1])
				return true
			}
		case "missing-key":
			if x.Kind == abigen.XMap && len(x.Keys) > 0 {
				i := r.Intn(len(x.Keys))
				x.Keys = append(append([]string{}, x.Keys[:i]...), x.Keys[i+1:]...)
				x.Vals = append(append([]*abigen.Ext{}, x.Vals[:i]...), x.Vals[i+1:]...)
				return true
			}
		case "extra-key":
			if x.Kind == abigen.XMap {
				x.Keys = append(x.Keys, "zzz")
				x.Vals = append(x.Vals, xstr("unused"))
				return true
			}
		}
		return false
	}
	switch x.Kind {
	case abigen.XList:
		for i := range x.List {
			if i < len(v.Elems) && damage(r, x.List[i], v.Elems[i], t, how) {
				return true
			}
		}
	case abigen.XMap:
		for i := range x.Vals {
			if i < len(v.Elems) && damage(r, x.Vals[i], v.Elems[i], t, how) {
				return true
			}
		}
	}
	return false
}
func sameFields(a, b *abigen.Type) bool { return a == b }

// zero-length fixed arrays, empty tuples, empty dynamic arrays (T[0] and () are outside the
// quantifier: model comparison only; T[] with no elements is inside)
func (h *H) zeroLength(r *cv.Rand) {
	for _, e := range []*abigen.Type{abigen.U(256), abigen.Byts(), abigen.Tup(abigen.Str(), abigen.U(8)), abigen.Dyn(abigen.U(8))} {
		t0 := abigen.Arr(e, 0)
		ts := []*abigen.Type{abigen.U(8), t0, abigen.Str()}
		x := lst(xjnum("7"), lst(), xstr("abc"))
		h.addEnc("zero-len-fixed-array", modeJSON, ts, x, nil, false, "")
		h.addEnc("zero-len-fixed-array", modeJSON, one(abigen.Dyn(t0)), lst(lst(lst(), lst())), nil, false, "")
		td := abigen.Dyn(e)
		ts2 := []*abigen.Type{td, abigen.U(8)}
		h.addEnc("empty-dyn-array", modeJSON, ts2, lst(lst(), xjnum("1")), tupv(ts2, &abigen.Value{T: td}, num(ts2[1], big.NewInt(1))), false, "")
	}
	h.addEnc("empty-tuple", modeJSON, []*abigen.Type{abigen.Tup(), abigen.Str()}, lst(lst(), xstr("x")), nil, false, "")
	h.addEnc("empty-params", modeJSON, nil, lst(), tupv(nil), false, "")
	h.addEnc("empty-params", modeValues, nil, &abigen.Ext{Kind: abigen.XMap}, tupv(nil), false, "")
}

// fixed-point: the pinned code's known defects (sign lost, ufixed range-checked as signed, 64-bit
// parsing precision) are classified by key; everything else must agree with the specification
func (h *H) fixedPoint(r *cv.Rand, n int) {
	types := []*abigen.Type{abigen.Fx(128, 18), abigen.UFx(128, 18), abigen.Fx(8, 1), abigen.UFx(8, 1), abigen.Fx(256, 80), abigen.UFx(256, 80), abigen.Fx(64, 6), abigen.UFx(16, 2), abigen.Fx(256, 1)}
	emit := func(t *abigen.Type, z *big.Int) {
		key := "C02/fixed-precision-64bit"
		lo, hi := t.Range()
		_ = lo
		half := new(big.Int).Rsh(new(big.Int).Add(hi, big.NewInt(1)), 1)
		switch {
		case z.Sign() < 0:
			key = "C02/fixed-negative-sign"
		case t.Kind == abigen.Ufixed && z.Cmp(half) >= 0:
			key = "C02/ufixed-range-signed"
		}
		lit := abigen.FixedLiteral(z, t.N)
		x := xstr(lit)
		mode := modeValues
		if r.Bool() {
			mode = modeJSON
			if r.Bool() {
				x = xjnum(lit)
			}
		}
		h.st.Hit("fixed:" + key)
		h.addEnc("fixed-point", mode, one(t), lst(x), tupv(one(t), num(t, z)), false, key)
	}
	for _, t := range types {
		in, _ := abigen.IntBoundaries(t)
		for _, z := range in {
			emit(t, z)
		}
		for i := 0; i < n; i++ {
			lo, hi := t.Range()
			emit(t, abigen.RandInRange(r, lo, hi))
		}
		// small literals
		for _, s := range []int64{15, 5, 100, 123456, -15, 128, 127} {
			z := big.NewInt(s)
			if inRange(t, z) {
				emit(t, z)
			}
		}
	}
	// the witnesses of DESIGN section 7
	w := func(t *abigen.Type, lit string, scaled string, key string) {
		z, _ := new(big.Int).SetString(scaled, 10)
		h.addEnc("fixed-point-witness", modeJSON, one(t), lst(xstr(lit)), tupv(one(t), num(t, z)), false, key)
	}
	w(abigen.Fx(128, 18), "-1.5", "-1500000000000000000", "C02/fixed-negative-sign")
	w(abigen.UFx(8, 1), "12.8", "128", "C02/ufixed-range-signed")
	w(abigen.UFx(128, 18), "123456789.123456789123456789", "123456789123456789123456789", "C02/fixed-precision-64bit")
	// odd inputs for fixed types: comparison only
	for _, s := range []string{"Inf", "-Inf", "abc", "", "1e3", "1.5e-1", ".5", "5."} {
		h.addEnc("fixed-odd-text", modeValues, one(abigen.Fx(128, 18)), lst(xstr(s)), nil, false, "")
	}
	for _, x := range []*abigen.Ext{{Kind: abigen.XF64, F: 1.5}, {Kind: abigen.XF64, F: -2.25}, {Kind: abigen.XInt, IKind: "KInt64", Big: big.NewInt(3)}, {Kind: abigen.XBigInt, Big: big.NewInt(7)},
		{Kind: abigen.XF64, F: math.Inf(1)}, {Kind: abigen.XBool, Bool: true}, {Kind: abigen.XInt, IKind: "KUint64", Big: new(big.Int).SetUint64(math.MaxUint64)}} {
		h.addEnc("fixed-go-value", modeValues, one(abigen.Fx(128, 18)), lst(x), nil, false, "")
		h.addEnc("fixed-go-value", modeValues, one(abigen.UFx(64, 2)), lst(x), nil, false, "")
	}
}

// hand-built ComponentValue trees: what EncodeABIData does on trees that the input walk would not build
func (h *H) trees(r *cv.Rand) {
	comp := func(t *abigen.Type) abi.TypeComponent {
		tc, err := t.Param().TypeComponentTree()
		if err != nil {
			panic(err)
		}
		return tc
	}
	elem := func(t *abigen.Type, v interface{}) *abi.ComponentValue {
		return &abi.ComponentValue{Component: comp(t), Value: v}
	}
	for _, t := range []*abigen.Type{abigen.U(256), abigen.I(8), abigen.Addr(), abigen.Boolean(), abigen.BN(4), abigen.BN(32), abigen.Byts(), abigen.Str(), abigen.Func(), abigen.Fx(64, 2), abigen.UFx(64, 2)} {
		for _, v := range []interface{}{nil, big.NewInt(5), big.NewInt(-5), (*big.Int)(nil), []byte{1, 2, 3, 4}, r.Bytes(40), []byte{}, "abc", "", new(big.Float).SetFloat64(1.25), new(big.Float).SetInf(true), 5, true} {
			h.addTree("tree-elementary", elem(t, v), t, fmt.Sprintf("Value=%T %v", v, v))
		}
	}
	// nil pieces
	h.addTree("tree-nil", nil, abigen.U(8), "nil ComponentValue")
	h.addTree("tree-nil", &abi.ComponentValue{}, abigen.U(8), "nil Component")
	// containers whose children do not match the component
	tA := abigen.Arr(abigen.U(8), 2)
	tD := abigen.Dyn(abigen.Str())
	tT := abigen.Tup(abigen.U(8).Named("a"), abigen.Byts().Named("b"))
	u8 := func(n int64) *abi.ComponentValue { return elem(abigen.U(8), big.NewInt(n)) }
	st := func(s string) *abi.ComponentValue { return elem(abigen.Str(), s) }
	for _, kids := range [][]*abi.ComponentValue{nil, {u8(1)}, {u8(1), u8(2)}, {u8(1), u8(2), u8(3)}, {u8(1), nil}, {st("x"), u8(2)}, {st("x"), st("yy")}, {u8(300)}} {
		h.addTree("tree-children", &abi.ComponentValue{Component: comp(tA), Children: kids}, treeTypeFor(tA, kids), fmt.Sprintf("%d children under %s", len(kids), tA.Canonical()))
		h.addTree("tree-children", &abi.ComponentValue{Component: comp(tD), Children: kids}, treeTypeFor(tD, kids), fmt.Sprintf("%d children under %s", len(kids), tD.Canonical()))
		h.addTree("tree-children", &abi.ComponentValue{Component: comp(tT), Children: kids}, treeTypeFor(tT, kids), fmt.Sprintf("%d children under %s", len(kids), tT.Canonical()))
	}
}

// treeTypeFor describes a hand-built tree for printing: the container's own component is t's, each
// child (a uint8 or string leaf) prints with its own elementary component.
func treeTypeFor(t *abigen.Type, kids []*abi.ComponentValue) *abigen.Type {
	c := *t
	c.Override = make([]*abigen.Type, len(kids))
	for i, k := range kids {
		c.Override[i] = abigen.U(8)
		if k != nil {
			if _, ok := k.Value.(string); ok {
				c.Override[i] = abigen.Str()
			}
		}
	}
	return &c
}

func main() {
	out := flag.String("out", "", "output directory")
	tier := flag.String("tier", "quick", "quick|thorough")
	replay := flag.String("replay", "", "replay file")
	flag.Parse()
	if *out == "" {
		fmt.Fprintln(os.Stderr, "need -out")
		os.Exit(2)
	}
	os.MkdirAll(*out, 0o755)
	logrus.SetOutput(io.Discard) // pkg/ethtypes logs every rejected number text
	header := "From Coq Require Import String List NArith ZArith Uint63.\nFrom FFS Require Import Base.Bytes Base.Lit Abi.Types Abi.Spec Abi.ModelTypes Abi.InputModel Abi.RunC02.\nImport ListNotations.\nOpen Scope string_scope. Open Scope N_scope."
	h := &H{st: cv.NewStats(), seen: map[string]bool{}, only: -1, curDir: *out}
	shards := 16
	if *replay != "" {
		raw, err := os.ReadFile(*replay)
		if err != nil {
			panic(err)
		}
		var rp struct {
			Case desc   `json:"case"`
			Tier string `json:"tier"`
			Seed int64  `json:"seed"`
		}
		json.Unmarshal(raw, &rp)
		if rp.Case.ID == 0 {
			fmt.Println("replay: the file names no generated case (obligation/correspondence entry); nothing to re-run")
			os.Exit(0)
		}
		h.only = rp.Case.ID
		if rp.Tier != "" {
			*tier = rp.Tier
		}
		os.Setenv("VERIF_SEED", fmt.Sprint(rp.Seed))
		shards = 1
	}
	thorough := *tier == "thorough"
	if thorough && *replay == "" {
		shards = 96 // ~300 cases per file: a coqc process per file stays small
	}
	h.w = cv.NewWriter(*out, "C02", header, "case", "mismatches", shards)
	r := cv.NewRand(2)

	// fixed corpus first (independent of the seed where possible), then the random streams
	h.intBoundaries(r, thorough)
	h.intTexts(r)
	h.elementaryOthers(r)
	h.zeroLength(r)
	h.trees(r)
	if thorough {
		h.structured(r, 8000, 3)
		h.arity(r, 1500)
		h.fixedPoint(r, 40)
	} else {
		h.structured(r, 500, 2)
		h.arity(r, 80)
		h.fixedPoint(r, 4)
	}
	// round 3 streams (appended, so that the case ids of the earlier streams keep their meaning)
	r3 := cv.NewRand(3)
	h.hexEdges(r3)
	h.magnitudes(r3)
	h.tupleKeys(r3)
	h.fixedKinds(r3)
	h.goReprs(r3)
	h.bigShapes(r3, thorough)
	var ss []*session
	if thorough {
		ss = h.sessions(r3, 200, 12)
		h.concurrent(r3, ss, 20000)
		h.editSessions(cv.NewRand(4), 400)
	} else {
		ss = h.sessions(r3, 24, 9)
		h.concurrent(r3, ss, 2500)
		h.editSessions(cv.NewRand(4), 40)
	}
	h.refereeStreams()
	h.wave6Streams()
	h.finalChecks()
	if err := h.w.Flush(); err != nil {
		panic(err)
	}
	if *replay != "" {
		for k, n := range h.st.Distribution {
			if strings.HasPrefix(k, "class:") {
				fmt.Println("implementation outcome:", k, n)
			}
		}
	}
	h.st.Evaluations = h.w.Count()
	h.st.Rule = "every uint/int width x {0,+-1,min,max,min+1,max-1 and the out-of-range neighbours min-1,max+1,2max+2,2^256+1,-2^256} x external representation (decimal/0x-hex strings, JSON number plain/exponent/.0, big.Int, sized Go ints, float64, big.Float); non-integral and oddly spelled number texts; float64/float32 up to 2^256, NaN, Inf; every bytes<M> at exact/short/long length, dynamic bytes/strings at lengths 0..1024 across the 32-byte boundaries, function, address, bool spellings; systematic nestings of {T[2],T[],(T,x),(x,T)} over a static and a dynamic leaf; random type trees (depth<=4) with boundary-directed well-typed values as JSON or Go values, tuples as arrays or objects; one leaf out of range; arity damage; zero-length arrays; fixed-point literals; hand-built ComponentValue trees. distinct = distinct Coq case terms"
	if err := h.st.Write(filepath.Join(*out, "stats_C02.json")); err != nil {
		panic(err)
	}
	os.Remove(filepath.Join(*out, "current_case.json"))
}
