package main

// Wave 6: T[0] with a STATIC element type.  Theorem C02_encode_is_spec_zero_len_static proves that the
// model encodes such arrays as the Solidity specification's enc says (the empty string, not
// dynamic); the earlier stream "zero-len-fixed-array" compared model and implementation only.  Here
// the implementation is held to the specification (property oracle) for every static element
// shape, at top level, inside T[], inside T[k], inside a tuple, and as T[0][0] / T[0][3].  T[0] with a
// dynamic T stays comparison only (the code's value-driven dynamic flag is false there while the
// specification's is true: outside the quantifier, "length >= 1").  Appended after all earlier
// streams, no PRNG: earlier case ids keep their meaning.

import (
	"math/big"

	"verifharness/abigen"
)

func (h *H) wave6Streams() {
	statics := []*abigen.Type{
		abigen.U(256), abigen.I(8), abigen.BN(3), abigen.Addr(), abigen.Boolean(),
		abigen.Tup(abigen.U(8), abigen.Boolean()), abigen.Arr(abigen.U(16), 2), abigen.Arr(abigen.U(8), 0),
	}
	empty := func(t *abigen.Type) *abigen.Value { return &abigen.Value{T: t} }
	for _, e := range statics {
		t0 := abigen.Arr(e, 0)
		for _, mode := range []string{modeJSON, modeValues, modeCallJ} {
			// (uint8, T[0], string) given [7, [], "abc"]
			ts := []*abigen.Type{abigen.U(8), t0, abigen.Str()}
			v := tupv(ts, num(ts[0], big.NewInt(7)), empty(t0), &abigen.Value{T: ts[2], Bytes: []byte("abc")})
			h.addEnc("zero-len-static-elem", mode, ts, lst(xjnum("7"), lst(), xstr("abc")), v, false, "")
			// T[0][] given [[], []]
			td := abigen.Dyn(t0)
			h.addEnc("zero-len-static-elem-in-dyn", mode, one(td), lst(lst(lst(), lst())),
				tupv(one(td), &abigen.Value{T: td, Elems: []*abigen.Value{empty(t0), empty(t0)}}), false, "")
			// T[0][3] next to bytes
			t3 := abigen.Arr(t0, 3)
			ts3 := []*abigen.Type{t3, abigen.Byts()}
			h.addEnc("zero-len-static-elem-in-fixed", mode, ts3, lst(lst(lst(), lst(), lst()), xstr("0x0102")),
				tupv(ts3, &abigen.Value{T: t3, Elems: []*abigen.Value{empty(t0), empty(t0), empty(t0)}}, &abigen.Value{T: ts3[1], Bytes: []byte{1, 2}}), false, "")
			// (T[0], string)[] given [[[], "x"]]: a dynamic tuple holding the empty array
			tt := abigen.Tup(t0, abigen.Str())
			tdt := abigen.Dyn(tt)
			h.addEnc("zero-len-static-elem-in-tuple", mode, one(tdt), lst(lst(lst(lst(), xstr("x")))),
				tupv(one(tdt), &abigen.Value{T: tdt, Elems: []*abigen.Value{{T: tt, Elems: []*abigen.Value{empty(t0), {T: tt.Fields[1], Bytes: []byte("x")}}}}}), false, "")
		}
		// wrong arity for T[0]: one element given
		h.addEnc("zero-len-static-elem-arity", modeValues, one(t0), lst(lst(xjnum("1"))), nil, true, "")
	}
}
