// Harness for C16 ("the proxy survives and answers every request body with well-formed JSON-RPC").
//
// Process level: builds the real ffsigner binary from the tree under test, starts it (proxykit) with a
// generated key directory and a scripted JSON-RPC backend, and POSTs sequences of about fifty generated
// bodies to each process, with a liveness probe (eth_accounts) after every body and the exit status
// collected at the end of the sequence.  Oracles on the implementation evaluated here: process alive
// and serving, clean exit status, reply is valid JSON of the JSON-RPC 2.0 response shape.  Every case
// (body, encoding/json lexer verdict, observed reply projection) is also written as a Coq case for
// Rpc/RunC16.v, which runs the handler model on it and the specification oracles of Rpc/WfSpec.v.
package main

import (
	"bufio"
	"bytes"
	"encoding/hex"
	"encoding/json"
	"flag"
	"fmt"
	"io"
	"net"
	"net/http"
	"net/url"
	"os"
	"path/filepath"
	"sort"
	"strings"
	"sync"
	"time"

	"github.com/sirupsen/logrus"
	"verifharness/cv"
	"verifharness/proxykit"
)

const nKeys = 7
const nonceFailKey = 2 // eth_getTransactionCount for this held address is answered with an RPC error

// round 3: keys 3..5 make the nonce lookup fail in the other ways a backend can fail (HTTP 500 without a
// body, dropped connection, a result that is not a number); for key 6 the lookup answers `null` (the
// nonce stays nil, signing proceeds with nonce 0).  nonceFails(i) = the request ends with an error.
func nonceFails(i int) bool { return i >= nonceFailKey && i <= 5 }

const nonceNullKey = 6

// a transaction whose `to` address carries this marker is signed normally, but the scripted backend
// refuses its eth_sendRawTransaction in the way the digit after the marker selects (1 RPC error, 2 HTTP
// 500 without a body, 3 dropped connection, 4 the body `null`, 5 RPC error with HTTP 500; any other
// digit: accepted).  The `to` address is in clear in the RLP of the signed transaction.
const rawRefuseMarker = "00000000000000000000000000000000dead000"

func rawRefusal(hexOrJSON string) int {
	i := strings.Index(strings.ToLower(hexOrJSON), rawRefuseMarker)
	if i < 0 || i+len(rawRefuseMarker) >= len(hexOrJSON) {
		return 0
	}
	d := int(hexOrJSON[i+len(rawRefuseMarker)] - '0')
	if d >= 1 && d <= 5 {
		return d
	}
	return 0
}

const header = `From Coq Require Import String List NArith ZArith Bool Uint63.
From FFS Require Import Base.Bytes Base.Lit Rpc.Body Rpc.RunC16.
Import ListNotations.
Open Scope N_scope.`

type result struct {
	tc       tcase
	resp     proxykit.Response
	obs      string
	problems []string
	died     bool
	exit     int
	probeOK  bool
	logTail  string
	seq      int
	pos      int
}

func script(keys []proxykit.Key) func(f *proxykit.Frame) proxykit.Reply {
	which := func(p json.RawMessage) int {
		for i, k := range keys {
			if strings.EqualFold(string(p), `"`+k.Hex()+`"`) {
				return i
			}
		}
		return -1
	}
	refusal := func(d int) proxykit.Reply {
		switch d {
		case 1:
			return proxykit.Reply{Kind: proxykit.ReplyRPCError, Code: -32000, Message: "nonce too low"}
		case 2:
			return proxykit.Reply{Kind: proxykit.ReplyHTTPError, Status: 500}
		case 3:
			return proxykit.Reply{Kind: proxykit.ReplyDrop}
		case 4:
			return proxykit.Reply{Kind: proxykit.ReplyRawBody, Body: []byte("null")}
		default:
			return proxykit.Reply{Kind: proxykit.ReplyRPCError, Status: 500, Code: -32003, Message: "transaction rejected"}
		}
	}
	return func(f *proxykit.Frame) proxykit.Reply {
		switch f.Method {
		case "eth_getTransactionCount":
			if len(f.Params) > 0 {
				switch which(f.Params[0]) {
				case nonceFailKey:
					return proxykit.Reply{Kind: proxykit.ReplyRPCError, Code: -32005, Message: "nonce lookup refused"}
				case 3:
					return refusal(2)
				case 4:
					return refusal(3)
				case 5:
					return proxykit.Reply{Kind: proxykit.ReplyResult, Result: json.RawMessage(`"zz"`)}
				case nonceNullKey:
					return proxykit.Reply{Kind: proxykit.ReplyResult, Result: json.RawMessage(`null`)}
				}
			}
			return proxykit.Reply{Kind: proxykit.ReplyResult, Result: json.RawMessage(`"0x5"`)}
		case "eth_sendRawTransaction":
			if len(f.Params) > 0 {
				if string(f.Params[0]) == `"0xdead"` { // RunC16.raw_refused, for a client that sends it itself
					return refusal(1)
				}
				if d := rawRefusal(string(f.Params[0])); d != 0 {
					return refusal(d)
				}
			}
			return proxykit.Reply{Kind: proxykit.ReplyResult, Result: json.RawMessage(`"0x` + strings.Repeat("ab", 32) + `"`)}
		case "net_version":
			return proxykit.Reply{Kind: proxykit.ReplyResult, Result: json.RawMessage(`"2022"`)}
		case "t_result_str":
			return proxykit.Reply{Kind: proxykit.ReplyResult, Result: json.RawMessage(`"0xabc"`)}
		case "t_result_num":
			return proxykit.Reply{Kind: proxykit.ReplyResult, Result: json.RawMessage(`12345678901234567890`)}
		case "t_result_obj":
			return proxykit.Reply{Kind: proxykit.ReplyResult, Result: json.RawMessage(`{"a":[1,{"b":null}],"error":{"code":1}}`)}
		case "t_result_arr":
			return proxykit.Reply{Kind: proxykit.ReplyResult, Result: json.RawMessage(`[1,"x",null,[]]`)}
		case "t_result_null":
			return proxykit.Reply{Kind: proxykit.ReplyResult, Result: json.RawMessage(`null`)}
		case "t_result_bool":
			return proxykit.Reply{Kind: proxykit.ReplyResult, Result: json.RawMessage(`false`)}
		case "t_noresult":
			return proxykit.Reply{Kind: proxykit.ReplyResult}
		case "t_rpcerr":
			return proxykit.Reply{Kind: proxykit.ReplyRPCError, Code: -32000, Message: "execution reverted"}
		case "t_rpcerr_500":
			return proxykit.Reply{Kind: proxykit.ReplyRPCError, Status: 500, Code: -32001, Message: "boom"}
		case "t_http500_empty":
			return proxykit.Reply{Kind: proxykit.ReplyHTTPError, Status: 500}
		case "t_http502_text":
			return proxykit.Reply{Kind: proxykit.ReplyHTTPError, Status: 502, Body: []byte("Bad Gateway")}
		case "t_drop":
			return proxykit.Reply{Kind: proxykit.ReplyDrop}
		case "t_slow":
			return proxykit.Reply{Kind: proxykit.ReplyResult, Result: json.RawMessage(`"slow"`), Delay: 40 * time.Millisecond}
		case "t_slow_err":
			return proxykit.Reply{Kind: proxykit.ReplyRPCError, Code: -32000, Message: "slow failure", Delay: 40 * time.Millisecond}
		case "t_rawnull":
			return proxykit.Reply{Kind: proxykit.ReplyRawBody, Body: []byte("null")}
		}
		return proxykit.Reply{Kind: proxykit.ReplyResult, Result: json.RawMessage(`"0x1"`)}
	}
}

// post sends the body; tc.mode selects a transport variant of the same bytes (the property quantifies
// over the bytes POSTed, not over how the client frames them)
func post(p *proxykit.Proxy, tc tcase) proxykit.Response {
	if tc.mode == "" {
		return p.Post(tc.body)
	}
	if strings.HasPrefix(tc.mode, "short-") {
		return postShort(p, tc)
	}
	var rd io.Reader = bytes.NewReader(tc.body)
	if tc.mode == "chunked" {
		rd = struct{ io.Reader }{rd} // hides the length: the client uses Transfer-Encoding: chunked
	}
	req, _ := http.NewRequest(http.MethodPost, p.URL, rd)
	switch tc.mode {
	case "text-plain":
		req.Header.Set("Content-Type", "text/plain")
	case "chunked":
		req.Header.Set("Content-Type", "application/json")
	}
	res, err := altClient.Do(req)
	if err != nil {
		return proxykit.Response{Err: err}
	}
	defer res.Body.Close()
	b, err := io.ReadAll(res.Body)
	return proxykit.Response{Status: res.StatusCode, Body: b, Err: err}
}

// postShort makes the upload end early: the request announces more bytes than are sent (Content-Length
// too large, or a chunked body without its terminating chunk) and the client then closes its sending
// side only.  The handler's io.ReadAll fails with the bytes read so far; the reply can still be read.
func postShort(p *proxykit.Proxy, tc tcase) proxykit.Response {
	u, err := url.Parse(p.URL)
	if err != nil {
		return proxykit.Response{Err: err}
	}
	c, err := net.DialTimeout("tcp", u.Host, 10*time.Second)
	if err != nil {
		return proxykit.Response{Err: err}
	}
	defer c.Close()
	_ = c.SetDeadline(time.Now().Add(30 * time.Second))
	var req bytes.Buffer
	req.WriteString("POST / HTTP/1.1\r\nHost: " + u.Host + "\r\nContent-Type: application/json\r\nConnection: close\r\n")
	if tc.mode == "short-chunked" {
		req.WriteString("Transfer-Encoding: chunked\r\n\r\n")
		if len(tc.body) > 0 {
			fmt.Fprintf(&req, "%x\r\n", len(tc.body))
			req.Write(tc.body)
			req.WriteString("\r\n")
		}
		// no terminating 0-length chunk
	} else {
		fmt.Fprintf(&req, "Content-Length: %d\r\n\r\n", len(tc.body)+tc.extra)
		req.Write(tc.body)
	}
	if _, err := c.Write(req.Bytes()); err != nil {
		return proxykit.Response{Err: err}
	}
	if tcp, ok := c.(*net.TCPConn); ok {
		_ = tcp.CloseWrite()
	}
	res, err := http.ReadResponse(bufio.NewReader(c), nil)
	if err != nil {
		return proxykit.Response{Err: err}
	}
	defer res.Body.Close()
	b, err := io.ReadAll(res.Body)
	return proxykit.Response{Status: res.StatusCode, Body: b, Err: err}
}

var altClient = &http.Client{Timeout: 60 * time.Second}

func tail(s string, n int) string {
	if len(s) > n {
		return s[len(s)-n:]
	}
	return s
}

func describeBody(b []byte) string {
	d := cv.Compress(b)
	s := d.Describe()
	if len(s) > 600 {
		s = s[:600] + "..."
	}
	return s
}

func textOf(b []byte) string {
	if len(b) > 300 {
		return string(b[:300]) + fmt.Sprintf("...(%d bytes)", len(b))
	}
	return string(b)
}

var curMu sync.Mutex
var curCases = map[int]interface{}{}

func writeCurrent(out string, worker int, c interface{}) {
	curMu.Lock()
	defer curMu.Unlock()
	if c == nil {
		delete(curCases, worker)
	} else {
		curCases[worker] = c
	}
	b, _ := json.Marshal(map[string]interface{}{"in_flight": curCases})
	_ = os.WriteFile(filepath.Join(out, "current_case.json"), b, 0o644)
}

type runner struct {
	bin     string
	out     string
	keyDir  string
	be      *proxykit.Backend
	startMu sync.Mutex
}

func (rn *runner) start(tag string) (*proxykit.Proxy, error) {
	rn.startMu.Lock() // free-port allocation in proxykit is racy between concurrent starts
	defer rn.startMu.Unlock()
	var last error
	for try := 0; try < 3; try++ {
		p, err := proxykit.StartProxy(proxykit.ProxyOptions{Bin: rn.bin, WorkDir: filepath.Join(rn.out, "proc", tag), KeyDir: rn.keyDir, BackendURL: rn.be.URL(), ChainID: 2022})
		if err == nil {
			for i := 0; i < 200 && !p.Probe(); i++ {
				time.Sleep(10 * time.Millisecond)
			}
			if p.Probe() {
				return p, nil
			}
			err = fmt.Errorf("started but does not answer eth_accounts: %s", tail(p.Log(), 500))
			p.Kill()
		}
		last = err
	}
	return nil, last
}

// runSequence posts the bodies of one sequence to one process (restarting it if it dies).
func (rn *runner) runSequence(worker, seq int, cases []tcase, burst []tcase) ([]result, error) {
	p, err := rn.start(fmt.Sprintf("s%d", seq))
	if err != nil {
		return nil, err
	}
	var out []result
	restarts := 0
	for i, tc := range cases {
		writeCurrent(rn.out, worker, map[string]interface{}{"sequence": seq, "position": i, "kind": tc.kind, "body": describeBody(tc.body), "body_dsl": cv.Compress(tc.body)})
		res := result{tc: tc, seq: seq, pos: i}
		res.resp = post(p, tc)
		res.obs, res.problems = observe(res.resp)
		res.probeOK = p.Probe()
		if !res.probeOK {
			// give a dying process a moment to be reaped, then decide
			time.Sleep(50 * time.Millisecond)
			res.probeOK = p.Probe()
		}
		if !p.Alive() {
			res.died = true
			res.exit, _ = p.ExitCode()
			res.logTail = tail(p.Log(), 1500)
		} else if !res.probeOK {
			res.logTail = tail(p.Log(), 1500)
		}
		out = append(out, res)
		if res.died || !res.probeOK {
			p.Kill()
			restarts++
			p, err = rn.start(fmt.Sprintf("s%d_r%d", seq, restarts))
			if err != nil {
				return out, err
			}
		}
	}
	// concurrent section: the bodies of the burst are POSTed at the same time to the same process (each
	// carries ids no other body has, so an answer that leaks from one request into another shows)
	for round := 0; len(burst) > 0 && round < 1; round++ {
		var descs []string
		for _, tc := range burst {
			descs = append(descs, textOf(tc.body))
		}
		writeCurrent(rn.out, worker, map[string]interface{}{"sequence": seq, "position": len(cases), "kind": "concurrent-burst", "bodies_posted_concurrently": descs, "body_dsl": cv.Compress(burst[0].body)})
		br := make([]result, len(burst))
		var wg sync.WaitGroup
		for i, tc := range burst {
			wg.Add(1)
			go func(i int, tc tcase) {
				defer wg.Done()
				r := result{tc: tc, seq: seq, pos: len(cases) + round*len(burst) + i}
				r.resp = post(p, tc)
				r.obs, r.problems = observe(r.resp)
				r.probeOK = true
				br[i] = r
			}(i, tc)
		}
		wg.Wait()
		ok := p.Probe()
		if !ok {
			time.Sleep(50 * time.Millisecond)
			ok = p.Probe()
		}
		br[0].probeOK = ok
		if !p.Alive() {
			br[0].died = true
			br[0].exit, _ = p.ExitCode()
			br[0].logTail = tail(p.Log(), 1500)
		} else if !ok {
			br[0].logTail = tail(p.Log(), 1500)
		}
		out = append(out, br...)
		if br[0].died || !ok {
			p.Kill()
			restarts++
			p, err = rn.start(fmt.Sprintf("s%d_r%d", seq, restarts))
			if err != nil {
				return out, err
			}
		}
	}
	writeCurrent(rn.out, worker, nil)
	code := p.Stop()
	if code != 0 {
		out = append(out, result{tc: tcase{kind: "end-of-sequence"}, seq: seq, pos: len(cases), exit: code, died: true, probeOK: true, logTail: tail(p.Log(), 1500), obs: ""})
	}
	return out, nil
}

func fail(st *cv.Stats, key, what string, r result) {
	m := map[string]interface{}{"what": what, "key": key, "kind": r.tc.kind, "body": describeBody(r.tc.body), "body_text": textOf(r.tc.body),
		"body_dsl": cv.Compress(r.tc.body), "reply_status": r.resp.Status, "reply_body": textOf(r.resp.Body), "sequence": r.seq, "position": r.pos}
	if r.logTail != "" {
		m["process_log_tail"] = r.logTail
	}
	if r.died {
		m["exit_code"] = r.exit
	}
	st.ImplFailures = append(st.ImplFailures, m)
}

func main() {
	out := flag.String("out", ".", "output directory")
	tier := flag.String("tier", "quick", "quick|thorough")
	replay := flag.String("replay", "", "replay file")
	flag.Parse()
	thorough := *tier == "thorough"
	logrus.SetOutput(io.Discard) // pkg/ethtypes logs every number it cannot parse
	if err := os.MkdirAll(*out, 0o755); err != nil {
		panic(err)
	}
	st := cv.NewStats()

	r := cv.NewRand(16)
	keys := proxykit.GenKeys(cv.NewRand(1601).Bytes, nKeys)
	bin, err := proxykit.BuildFFSigner(filepath.Join(*out, "bin"))
	if err != nil {
		// the tree under test does not build: nothing can be observed (./check reports the broken tie)
		fmt.Println("cannot build ffsigner:", err)
		os.Exit(3)
	}
	keyDir := filepath.Join(*out, "keys")
	if err := proxykit.WriteKeyDir(keyDir, keys); err != nil {
		panic(err)
	}
	be, err := proxykit.NewBackend()
	if err != nil {
		panic(err)
	}
	defer be.Close()
	be.SetScript(script(keys))
	rn := &runner{bin: bin, out: *out, keyDir: keyDir, be: be}

	if *replay != "" {
		doReplay(rn, *replay)
		return
	}

	g := &gen{r: r, keys: keys, seen: map[string]bool{}}
	g.fixed(thorough)
	nRandom, nMal := 260, 150
	if thorough {
		nRandom, nMal = 6000, 3000
	}
	g.random(nRandom)
	g.malformed(nMal)

	// sequences of ~50: the regression corpus first in sequence 0, everything else shuffled so that
	// every process sees a mix of valid, invalid, huge and hostile bodies in a seed-dependent order
	cases := g.cases
	for i := len(cases) - 1; i > 12; i-- {
		j := 12 + r.Intn(i-11)
		cases[i], cases[j] = cases[j], cases[i]
	}
	const seqLen = 50
	var seqs [][]tcase
	for i := 0; i < len(cases); i += seqLen {
		seqs = append(seqs, cases[i:min(i+seqLen, len(cases))])
	}
	bursts := make([][]tcase, len(seqs))
	for s := range seqs {
		bursts[s] = g.burst(s, thorough)
	}
	workers := 12
	results := make([][]result, len(seqs))
	errs := make([]error, len(seqs))
	var wg sync.WaitGroup
	next := make(chan int)
	for w := 0; w < workers; w++ {
		wg.Add(1)
		go func(w int) {
			defer wg.Done()
			for s := range next {
				results[s], errs[s] = rn.runSequence(w, s, seqs[s], bursts[s])
			}
		}(w)
	}
	for s := range seqs {
		next <- s
	}
	close(next)
	wg.Wait()

	w := newCaseWriter(*out, "C16", header, 16)
	deaths, badExit := 0, 0
	for s := range seqs {
		if errs[s] != nil {
			st.ImplFailures = append(st.ImplFailures, map[string]interface{}{"what": "the ffsigner process could not be (re)started: " + errs[s].Error(), "key": "C16/cannot-start", "sequence": s})
		}
		for _, res := range results[s] {
			if res.tc.kind == "end-of-sequence" {
				badExit++
				fail(st, "C16/exit-status", fmt.Sprintf("the process ended sequence %d with exit status %d after SIGTERM", s, res.exit), res)
				continue
			}
			st.Hit("kind:" + strings.SplitN(res.tc.kind, "/", 2)[0])
			if res.tc.mode != "" {
				st.Hit("transport:" + res.tc.mode)
			}
			st.Hit("case:" + res.tc.kind)
			st.Hit(fmt.Sprintf("http-status:%d", res.resp.Status))
			switch l := len(res.tc.body); {
			case l == 0:
				st.Hit("len:0")
			case l < 100:
				st.Hit("len:1-99")
			case l < 4096:
				st.Hit("len:100-4095")
			case l < 1<<16:
				st.Hit("len:4KiB-64KiB")
			case l < 1<<20-4096:
				st.Hit("len:64KiB-1MiB")
			default:
				st.Hit("len:~1MiB")
			}
			if strings.HasPrefix(res.tc.mode, "short-") {
				// the upload ended early: the handler never had the whole body, the model (a function of the
				// body) does not apply; judged here: alive, and a well-formed JSON-RPC reply (the code answers
				// with its parse-error object; answering the bytes that did arrive would be acceptable too)
				if res.died {
					deaths++
					fail(st, "C16/process-died", fmt.Sprintf("the ffsigner process died (exit status %d) after an upload that ended early", res.exit), res)
				} else if !res.probeOK {
					fail(st, "C16/not-serving", "the process no longer answers eth_accounts after an upload that ended early", res)
				}
				if len(res.problems) > 0 {
					fail(st, "C16/reply-shape", "upload ended early ("+res.tc.mode+"): "+res.problems[0], res)
				}
				st.Evaluations++
				continue
			}
			if strings.HasPrefix(res.tc.kind, "concurrent/") {
				st.Hit("concurrent-section")
			}
			tree, ok := parseTree(res.tc.body)
			verdict := "VSyntaxError"
			if ok {
				verdict = "(VTree " + tree.coq() + ")"
				st.Hit("lexer:tree/" + map[byte]string{'n': "null", 't': "bool", 'f': "bool", '0': "number", 's': "string", 'a': "array", 'o': "object"}[tree.K])
			} else {
				st.Hit("lexer:syntax-error")
			}
			if res.died {
				deaths++
				fail(st, "C16/process-died", fmt.Sprintf("the ffsigner process died (exit status %d) while or after handling this body", res.exit), res)
			} else if !res.probeOK {
				fail(st, "C16/not-serving", "the process no longer answers eth_accounts after this body", res)
			}
			for _, p := range res.problems {
				key := "C16/reply-shape"
				switch {
				case strings.HasPrefix(p, "no reply"):
					key = "C16/no-reply"
					p = "no reply (connection dropped or timed out)"
				case strings.HasPrefix(p, "reply body is"):
					key = "C16/reply-not-json"
				}
				fail(st, key, p, res)
			}
			table := txnTable(res.tc.body, tree, keys, st.Hit)
			term := fmt.Sprintf("(C16Case %s %s %s %s)", cv.Compress(res.tc.body).Coq(), verdict, table, res.obs)
			desc := map[string]interface{}{"kind": res.tc.kind, "transport": res.tc.mode, "body": describeBody(res.tc.body), "body_text": textOf(res.tc.body), "body_dsl": cv.Compress(res.tc.body),
				"reply_status": res.resp.Status, "reply_body": textOf(res.resp.Body), "sequence": res.seq, "position": res.pos}
			w.Add(term, desc)
			if len(st.Samples) < 12 && (res.pos == 3 || strings.HasPrefix(res.tc.kind, "corpus/")) {
				st.Samples = append(st.Samples, map[string]interface{}{"kind": res.tc.kind, "body": textOf(res.tc.body), "status": res.resp.Status, "reply": textOf(res.resp.Body)})
			}
		}
	}
	if err := w.Flush(); err != nil {
		panic(err)
	}
	st.Evaluations += w.Count()
	st.Distinct = len(g.seen)
	st.Extra["sequences"] = len(seqs)
	st.Extra["sequence_length"] = seqLen
	st.Extra["process_deaths"] = deaths
	st.Extra["nonzero_exit_status"] = badExit
	st.Extra["backend_frames"] = len(be.Frames())
	st.Extra["duplicates_dropped"] = g.dup
	var ks []string
	for k := range st.Distribution {
		ks = append(ks, k)
	}
	sort.Strings(ks)
	st.Rule = "bodies POSTed to the real ffsigner process in sequences of 50 per process (liveness probe after each, exit status at the end): regression corpus of the repaired defects; every JSON kind at top level and as batch member; request field kinds / key folding / duplicate keys; id forms; every scripted backend behaviour; every validation path of eth_sendTransaction (params count, decode, from held/unknown/malformed/absent, nonce, failing nonce lookup); leading whitespace 0..65536 and ~1MiB around the sniff window (99/100/101); Go-space-but-not-JSON-space bytes; nesting 100..20000 around the decoder limit 10000; batch sizes 1..20000; ~1MiB strings/random/zero bodies; random structured singles and batches with bad members; truncations at every length, mutations, random bytes, every single byte. distinct = distinct body byte strings (all but the empty body count as non-trivial)"
	if err := st.Write(filepath.Join(*out, "stats_C16.json")); err != nil {
		panic(err)
	}
	fmt.Printf("c16: %d bodies in %d sequences, %d process deaths, %d non-zero exits, %d go-side oracle failures\n", w.Count(), len(seqs), deaths, badExit, len(st.ImplFailures))
}

func doReplay(rn *runner, path string) {
	raw, err := os.ReadFile(path)
	if err != nil {
		panic(err)
	}
	var f struct {
		Case json.RawMessage `json:"case"`
	}
	_ = json.Unmarshal(raw, &f)
	src := raw
	if f.Case != nil {
		src = f.Case
	}
	var c struct {
		BodyDSL *cv.DSL `json:"body_dsl"`
		BodyHex string  `json:"body_hex"`
		Kind    string  `json:"kind"`
	}
	if err := json.Unmarshal(src, &c); err != nil {
		panic(err)
	}
	var body []byte
	if c.BodyDSL != nil {
		body = c.BodyDSL.Expand()
	} else {
		body, _ = hex.DecodeString(c.BodyHex)
	}
	results, err := rn.runSequence(0, 0, []tcase{{body: body, kind: "replay/" + c.Kind}}, nil)
	if err != nil {
		fmt.Println("cannot start ffsigner:", err)
		return
	}
	for _, res := range results {
		if res.tc.kind == "end-of-sequence" {
			fmt.Printf("implementation: exit status after SIGTERM = %d\n", res.exit)
			continue
		}
		fmt.Printf("body (%d bytes): %s\n", len(body), textOf(body))
		fmt.Printf("implementation: status=%d reply=%s transport-error=%v\n", res.resp.Status, textOf(res.resp.Body), res.resp.Err)
		fmt.Printf("implementation: process died=%v (exit %d) serving-after=%v\n", res.died, res.exit, res.probeOK)
		fmt.Printf("projection: %s\n", res.obs)
		for _, p := range res.problems {
			fmt.Println("oracle failure:", p)
		}
		if res.logTail != "" {
			fmt.Println("process log tail:\n" + res.logTail)
		}
		tree, ok := parseTree(body)
		verdict := "VSyntaxError"
		if ok {
			verdict = "(VTree " + tree.coq() + ")"
		}
		st := cv.NewStats()
		w := newCaseWriter(rn.out, "C16", header, 1)
		w.Add(fmt.Sprintf("(C16Case %s %s %s %s)", cv.Compress(body).Coq(), verdict, txnTable(body, tree, proxykit.GenKeys(cv.NewRand(1601).Bytes, nKeys), st.Hit), res.obs),
			map[string]interface{}{"kind": "replay", "body": describeBody(body), "body_dsl": cv.Compress(body)})
		_ = w.Flush()
	}
}
