package main

// Projection of a reply of the running ffsigner process, and the property oracles that can be
// evaluated on the implementation alone (process alive and serving, reply is valid JSON of the
// JSON-RPC 2.0 response shape).  The oracles that need the request tree (same length as the batch,
// unprocessable requests answered with an error) are evaluated in Coq from Rpc/WfSpec.v.

import (
	"encoding/hex"
	"encoding/json"
	"fmt"
	"strings"

	"github.com/hyperledger/firefly-signer/pkg/ethsigner"
	"github.com/hyperledger/firefly-signer/pkg/ethtypes"
	"verifharness/proxykit"
)

// item of a reply: INull | IOther | IObj jsonrpc-is-2.0 id has-result has-error error-wellformed code
func itemCoq(v *JV) (string, string) {
	switch {
	case v.K == 'n':
		return "INull", "a null where a response object is required"
	case v.K != 'o':
		return "IOther", "a non-object where a response object is required"
	}
	problem := ""
	j := v.get("jsonrpc")
	j2 := j != nil && j.K == 's' && j.S == "2.0"
	if !j2 {
		problem = `member "jsonrpc" is not "2.0"`
	}
	id := v.get("id")
	idc := "None"
	if id != nil {
		idc = "(Some " + id.coq() + ")"
	} else if problem == "" {
		problem = "no id member"
	}
	res, er := v.get("result"), v.get("error")
	if (res != nil) == (er != nil) && problem == "" {
		problem = "not exactly one of result / error"
	}
	for _, k := range []string{"jsonrpc", "id", "result", "error"} {
		if v.count(k) > 1 && problem == "" {
			problem = "duplicate member " + k
		}
	}
	ewf := false
	code := "0"
	if er != nil {
		c, m := er.get("code"), er.get("message")
		if er.K == 'o' && c != nil && c.K == '0' && m != nil && m.K == 's' && isInt(c.S) {
			ewf = true
			code = c.S
		} else if problem == "" {
			problem = "error without integer code and string message"
		}
	}
	return fmt.Sprintf("(IObj %v %s %v %v %v (%s)%%Z)", j2, idc, res != nil, er != nil, ewf, code), problem
}

func isInt(s string) bool {
	if strings.HasPrefix(s, "-") {
		s = s[1:]
	}
	if s == "" || len(s) > 18 {
		return false
	}
	for _, c := range s {
		if c < '0' || c > '9' {
			return false
		}
	}
	return true
}

// observe turns a response into the Coq term of type obs and the list of Go-side oracle failures.
func observe(r proxykit.Response) (string, []string) {
	if r.Err != nil {
		return "ONoReply", []string{"no reply (connection dropped or timed out): " + r.Err.Error()}
	}
	t, ok := parseTree(r.Body)
	if !ok {
		what := "reply body is not valid JSON"
		if len(r.Body) == 0 {
			what = "reply body is empty"
		}
		return fmt.Sprintf("(OBadJson %d)", r.Status), []string{what}
	}
	var probs []string
	if t.K == 'a' {
		items := make([]string, len(t.A))
		for i, m := range t.A {
			s, p := itemCoq(m)
			items[i] = s
			if p != "" && len(probs) < 5 {
				probs = append(probs, fmt.Sprintf("batch reply member %d: %s", i, p))
			}
		}
		if len(t.A) == 0 {
			probs = append(probs, "reply is an empty array")
		}
		// run-length compression: (irep n item) chunks concatenated
		var chunks []string
		for i := 0; i < len(items); {
			j := i + 1
			for j < len(items) && items[j] == items[i] {
				j++
			}
			if j-i >= 4 {
				chunks = append(chunks, fmt.Sprintf("irep %d %s", j-i, items[i]))
				i = j
				continue
			}
			k := i
			var lit []string
			for k < len(items) && !(k+3 < len(items) && items[k] == items[k+1] && items[k] == items[k+2] && items[k] == items[k+3]) {
				lit = append(lit, items[k])
				k++
			}
			chunks = append(chunks, "["+strings.Join(lit, "; ")+"]")
			i = k
		}
		return fmt.Sprintf("(OArray %d (concat [%s]))", r.Status, strings.Join(chunks, "; ")), probs
	}
	s, p := itemCoq(t)
	if p != "" {
		probs = append(probs, "reply: "+p)
	}
	return fmt.Sprintf("(OSingle %d %s)", r.Status, s), probs
}

// ---- oracle tables for the typed decoding that lives outside C16's anchors -------------------
// decode_txn / parse_addr of Rpc/WfModel.v: json.Unmarshal of params[0] into ethsigner.Transaction and
// of its `from` into ethtypes.Address0xHex (pkg/ethsigner, pkg/ethtypes: covered by C01/C19, here
// they enter the model as finite tables filled by calling those packages directly).

type txnInfo struct {
	coq  string
	kind string
}

// the typed view the library gives of one request object: what the harness needs to find params[0]
type reqView struct {
	Method string            `json:"method"`
	Params []json.RawMessage `json:"params"`
}

func compactJSONAny(raw json.RawMessage) []byte {
	// fftypes.JSONAny.UnmarshalJSON keeps json.Marshal(json.RawMessage(raw)); a JSON null member of
	// params is a nil *JSONAny whose Bytes() is nil
	if string(raw) == "null" {
		return nil
	}
	b, err := json.Marshal(raw)
	if err != nil {
		return raw
	}
	return b
}

func txnInfoFor(raw json.RawMessage, keys []proxykit.Key) txnInfo {
	var txn ethsigner.Transaction
	if err := json.Unmarshal(compactJSONAny(raw), &txn); err != nil {
		return txnInfo{"TDecodeErr", "txn-decode-error"}
	}
	nonce := txn.Nonce != nil
	if txn.From == nil {
		return txnInfo{fmt.Sprintf("(TView FAbsent %v)", nonce), "from-absent"}
	}
	var from ethtypes.Address0xHex
	if err := json.Unmarshal(txn.From, &from); err != nil {
		return txnInfo{fmt.Sprintf("(TView FBad %v)", nonce), fmt.Sprintf("from-bad/nonce=%v", nonce)}
	}
	which := 0
	for i, k := range keys {
		if k.Address == [20]byte(from) {
			which = 1
			if nonceFails(i) && !nonce {
				which = 2 // the nonce lookup fails before anything is signed
			} else if txn.To != nil && rawRefusal(hex.EncodeToString(txn.To[:])+"#") != 0 {
				which = 3 // signed, then the backend refuses the raw transaction
			} else if nonceFails(i) {
				which = 2 // (nonce given: the lookup is not made; 2 and 1 behave alike in the model then)
			}
		}
	}
	return txnInfo{fmt.Sprintf("(TView (FAddr %d) %v)", which, nonce), fmt.Sprintf("from-addr/held=%d/nonce=%v", which, nonce)}
}

// txnTable lists (params[0] tree, info) for every eth_sendTransaction request in the body that has a
// first parameter; requests the library cannot decode contribute nothing (the model answers those
// with a parse error before looking at params).
func txnTable(body []byte, tree *JV, keys []proxykit.Key, hit func(string)) string {
	if tree == nil {
		return "[]"
	}
	var views []reqView
	switch tree.K {
	case 'o':
		var v reqView
		if json.Unmarshal(body, &v) != nil {
			// a type error elsewhere (e.g. "id" fine but jsonrpc a number) still fills the fields the
			// decoder reached; the model only consults the table when the request decodes
			return "[]"
		}
		views = append(views, v)
	case 'a':
		var vs []*reqView
		if json.Unmarshal(body, &vs) != nil {
			return "[]"
		}
		for _, v := range vs {
			if v != nil {
				views = append(views, *v)
			}
		}
	default:
		return "[]"
	}
	var parts []string
	seen := map[string]bool{}
	for _, v := range views {
		if v.Method != "eth_sendTransaction" || len(v.Params) < 1 {
			continue
		}
		p0, ok := parseTree(v.Params[0])
		if !ok {
			continue
		}
		key := p0.coq()
		if seen[key] {
			continue
		}
		seen[key] = true
		info := txnInfoFor(v.Params[0], keys)
		hit("txn:" + info.kind)
		parts = append(parts, "("+key+", "+info.coq+")")
	}
	return "[" + strings.Join(parts, "; ") + "]"
}
