package main

// JSON trees as the encoding/json lexer sees them (the "lexer oracle" of Rpc/Body.v): object members
// in source order with duplicates kept, numbers as text, strings decoded.  Produced by calling
// encoding/json directly (json.Valid + Decoder.Token), never through firefly-signer.

import (
	"bytes"
	"encoding/json"
	"fmt"
	"strings"

	"verifharness/cv"
)

type JV struct {
	K    byte // 'n' null, 't' true, 'f' false, '0' number, 's' string, 'a' array, 'o' object
	S    string
	A    []*JV
	Keys []string
}

func readValue(dec *json.Decoder) (*JV, error) {
	tok, err := dec.Token()
	if err != nil {
		return nil, err
	}
	switch t := tok.(type) {
	case nil:
		return &JV{K: 'n'}, nil
	case bool:
		if t {
			return &JV{K: 't'}, nil
		}
		return &JV{K: 'f'}, nil
	case json.Number:
		return &JV{K: '0', S: string(t)}, nil
	case string:
		return &JV{K: 's', S: t}, nil
	case json.Delim:
		switch t {
		case '[':
			v := &JV{K: 'a'}
			for dec.More() {
				m, err := readValue(dec)
				if err != nil {
					return nil, err
				}
				v.A = append(v.A, m)
			}
			if _, err := dec.Token(); err != nil {
				return nil, err
			}
			return v, nil
		case '{':
			v := &JV{K: 'o'}
			for dec.More() {
				kt, err := dec.Token()
				if err != nil {
					return nil, err
				}
				ks, ok := kt.(string)
				if !ok {
					return nil, fmt.Errorf("non-string key")
				}
				m, err := readValue(dec)
				if err != nil {
					return nil, err
				}
				v.Keys = append(v.Keys, ks)
				v.A = append(v.A, m)
			}
			if _, err := dec.Token(); err != nil {
				return nil, err
			}
			return v, nil
		}
	}
	return nil, fmt.Errorf("unexpected token %v", tok)
}

// parseTree returns the lexer verdict for a body: (tree, true) or (nil, false) for a syntax error.
func parseTree(b []byte) (*JV, bool) {
	if !json.Valid(b) {
		return nil, false
	}
	dec := json.NewDecoder(bytes.NewReader(b))
	dec.UseNumber()
	v, err := readValue(dec)
	if err != nil {
		return nil, false
	}
	return v, true
}

func (v *JV) get(key string) *JV { // last exact-name member (used on *responses* only)
	if v == nil || v.K != 'o' {
		return nil
	}
	var r *JV
	for i, k := range v.Keys {
		if k == key {
			r = v.A[i]
		}
	}
	return r
}

func (v *JV) count(key string) int {
	n := 0
	if v != nil && v.K == 'o' {
		for _, k := range v.Keys {
			if k == key {
				n++
			}
		}
	}
	return n
}

func (v *JV) depth() int {
	// iterative on the first-child chain is not enough in general; recursion is fine for Go stacks
	d := 0
	for _, m := range v.A {
		if md := m.depth(); md > d {
			d = md
		}
	}
	if v.K == 'a' || v.K == 'o' {
		return d + 1
	}
	return 0
}

func bd(s string) string { return cv.Compress([]byte(s)).Coq() }

// coq prints the tree in the djv DSL of Rpc/RunC16.v: chains of singleton arrays become DNest, runs of
// equal consecutive array members become DRep (so 10 000-deep or 10 000-long bodies stay small).
func (v *JV) coq() string {
	switch v.K {
	case 'n':
		return "DNull"
	case 't':
		return "(DBool true)"
	case 'f':
		return "(DBool false)"
	case '0':
		return "(DNum " + bd(v.S) + ")"
	case 's':
		return "(DStr " + bd(v.S) + ")"
	case 'o':
		if len(v.A) == 1 {
			n, cur := 0, v
			for cur.K == 'o' && len(cur.A) == 1 && cur.Keys[0] == v.Keys[0] {
				n++
				cur = cur.A[0]
			}
			if n >= 8 {
				return fmt.Sprintf("(DNestO %d %s %s)", n, bd(v.Keys[0]), cur.coq())
			}
		}
		parts := make([]string, len(v.A))
		for i, m := range v.A {
			parts[i] = "(" + bd(v.Keys[i]) + ", " + m.coq() + ")"
		}
		return "(DObj [" + strings.Join(parts, "; ") + "])"
	}
	// array: singleton chain?
	n := 0
	cur := v
	for cur.K == 'a' && len(cur.A) == 1 {
		n++
		cur = cur.A[0]
	}
	if n >= 8 {
		return fmt.Sprintf("(DNest %d %s)", n, cur.coq())
	}
	var parts []string
	i := 0
	for i < len(v.A) {
		s := v.A[i].coq()
		j := i + 1
		for j < len(v.A) && v.A[j].K == v.A[i].K && len(v.A[j].A) == len(v.A[i].A) && v.A[j].coq() == s {
			j++
		}
		if j-i >= 6 {
			parts = append(parts, fmt.Sprintf("(DRep %d %s)", j-i, s))
		} else {
			for k := i; k < j; k++ {
				parts = append(parts, s)
			}
		}
		i = j
	}
	return "(DArr [" + strings.Join(parts, "; ") + "])"
}
