package main

// Body generator for C16: every class the property's quantifier lists, each boundary of the anchored
// code (sniff window, empty batch, nil member, missing id, parameter count, from / nonce paths), a
// malformed stream (truncations, byte flips, random bytes) and structured random requests/batches.

import (
	"bytes"
	"fmt"
	"strings"

	"verifharness/cv"
	"verifharness/proxykit"
)

type tcase struct {
	body []byte
	kind string
	mode string // "" | "no-ctype" | "text-plain" | "chunked" | "short-length" | "short-chunked"
	extra int   // short-length: how many bytes more than the body the Content-Length announces
}

type gen struct {
	r     *cv.Rand
	keys  []proxykit.Key
	cases []tcase
	seen  map[string]bool
	dup   int
}

func (g *gen) add(kind string, body []byte) {
	k := string(body)
	if len(k) > 4096 {
		l, a, b := cv.Cks(body)
		k = fmt.Sprintf("cks:%d:%d:%d", l, a, b)
	}
	if g.seen[k] {
		g.dup++
		return
	}
	g.seen[k] = true
	g.cases = append(g.cases, tcase{body: append([]byte{}, body...), kind: kind})
}
func (g *gen) adds(kind, body string) { g.add(kind, []byte(body)) }

// methods understood by the scripted backend (main.go script / RunC16.v script must agree)
var backendMethods = []string{
	"t_result_str", "t_result_num", "t_result_obj", "t_result_arr", "t_result_null", "t_result_bool", "t_noresult",
	"t_rpcerr", "t_rpcerr_500", "t_http500_empty", "t_http502_text", "t_drop", "t_rawnull", "t_slow_err",
	"eth_blockNumber", "eth_call", "", "net_version", "méthode", "eth_sendRawTransaction", "eth_getTransactionCount",
}

var idForms = []string{
	`1`, `0`, `-1`, `42`, `"abc"`, `""`, `"1"`, `18446744073709551616`, `123456789012345678901234567890123456789012345678901234567890`,
	`1.5`, `1e3`, `1E400`, `-0`, `true`, `false`, `{"a":[1,2]}`, `[1,"x",null]`, `[]`, `{}`, `"é😀"`, `"<&>"`,
	`"a\"b\\c"`, `{"a":1,"a":2}`, `[[[[[[1]]]]]]`, `" "`, `"null"`,
}

func (g *gen) pick(xs []string) string { return xs[g.r.Intn(len(xs))] }

func (g *gen) heldAddr(i int) string { return g.keys[i%len(g.keys)].Hex() }

// a transaction object (params[0] of eth_sendTransaction) in one of the shapes the validation paths
// of processEthSendTransaction distinguish
func (g *gen) txn() (string, string) {
	from := ""
	fk := ""
	switch c := g.r.Intn(16); {
	case c < 5:
		from, fk = `"`+g.heldAddr(g.r.Intn(2))+`"`, "held"
	case c == 5:
		from, fk = `"`+g.keys[nonceFailKey].Hex()+`"`, "held-noncefail"
	case c == 6:
		from, fk = `"`+strings.ToUpper(g.heldAddr(0)[2:])+`"`, "held-upper-noprefix"
	case c == 7:
		from, fk = `"0x00000000000000000000000000000000000000aa"`, "unknown"
	case c == 8:
		from, fk = "", "absent"
	case c == 9:
		from, fk = g.pick([]string{`"zz"`, `"0x12"`, `"0x"`, `""`, `"0x` + strings.Repeat("ab", 21) + `"`, `"0x` + strings.Repeat("ab", 19) + `"`, `"` + g.heldAddr(0) + `0"`}), "malformed-string"
	case c == 10:
		from, fk = g.pick([]string{`12`, `true`, `{}`, `[]`, `["` + g.heldAddr(0) + `"]`, `{"a":1}`, `1.5e3`}), "malformed-kind"
	case c == 11:
		from, fk = `null`, "null"
	default:
		from, fk = `"`+g.heldAddr(g.r.Intn(len(g.keys)))+`"`, "held"
	}
	var fs []string
	if fk != "absent" {
		fs = append(fs, `"from":`+from)
	}
	nk := "no-nonce"
	switch g.r.Intn(6) {
	case 0, 1:
		fs = append(fs, `"nonce":"0x`+fmt.Sprintf("%x", g.r.Intn(1000))+`"`)
		nk = "nonce"
	case 2:
		fs = append(fs, `"nonce":`+g.pick([]string{`12`, `"12"`, `0`}))
		nk = "nonce"
	case 3:
		if g.r.Intn(3) == 0 {
			fs = append(fs, `"nonce":`+g.pick([]string{`"zz"`, `true`, `{}`, `"0x"`, `-1`, `1.5`, `null`}))
			nk = "nonce-odd"
		}
	}
	switch c := g.r.Intn(8); {
	case c < 4:
		fs = append(fs, `"to":"0x00000000000000000000000000000000000000bb"`)
	case c == 4:
		// the scripted backend refuses the signed transaction (digits 1..5), digit 6: accepted
		fs = append(fs, `"to":"0x`+rawRefuseMarker+fmt.Sprint(1+g.r.Intn(6))+`"`)
		nk += "+raw-refused"
	}
	if g.r.Intn(3) == 0 {
		fs = append(fs, `"gas":"0x5208"`, `"gasPrice":`+g.pick([]string{`"0x1"`, `1000`, `"1000000000"`}))
	}
	if g.r.Intn(4) == 0 {
		fs = append(fs, `"maxFeePerGas":"0x10"`, `"maxPriorityFeePerGas":"0x1"`)
	}
	if g.r.Intn(3) == 0 {
		fs = append(fs, `"value":`+g.pick([]string{`"0x0"`, `1`, `"1000000000000000000000000000000"`, `"-1"`, `-5`}))
	}
	if g.r.Intn(3) == 0 {
		fs = append(fs, `"data":`+g.pick([]string{`"0x"`, `"0xfeedbeef"`, `"feedbeef"`, `"0x` + strings.Repeat("00", g.r.Intn(300)) + `"`}))
	}
	if g.r.Intn(12) == 0 {
		fs = append(fs, g.pick([]string{`"gas":"zz"`, `"to":"0x12"`, `"data":"0xzz"`, `"value":{}`, `"data":12`, `"gasPrice":[]`, `"to":5`}))
		nk += "+bad-field"
	}
	// shuffle a little: from not always first
	if len(fs) > 1 && g.r.Intn(3) == 0 {
		fs[0], fs[len(fs)-1] = fs[len(fs)-1], fs[0]
	}
	return "{" + strings.Join(fs, ",") + "}", "from-" + fk + "/" + nk
}

// one request object; mostly valid, with each field able to go wrong
func (g *gen) request() (string, string) {
	var fs []string
	kind := ""
	// jsonrpc
	switch g.r.Intn(12) {
	case 0:
	case 1:
		fs = append(fs, `"jsonrpc":"1.0"`)
	case 2:
		fs = append(fs, `"jsonrpc":null`)
	default:
		fs = append(fs, `"jsonrpc":"2.0"`)
	}
	// id
	switch c := g.r.Intn(20); {
	case c == 0:
		kind += "id-absent "
	case c == 1:
		fs = append(fs, `"id":null`)
		kind += "id-null "
	default:
		fs = append(fs, `"id":`+g.pick(idForms))
	}
	// method + params
	switch c := g.r.Intn(20); {
	case c < 4:
		fs = append(fs, `"method":"`+g.pick([]string{"eth_accounts", "personal_accounts"})+`"`)
		if g.r.Bool() {
			fs = append(fs, `"params":`+g.pick([]string{`[]`, `null`, `[1]`, `[null]`}))
		}
		kind += "accounts"
	case c < 11:
		fs = append(fs, `"method":"eth_sendTransaction"`)
		switch p := g.r.Intn(14); {
		case p == 0:
			kind += "sendtx/no-params"
		case p == 1:
			fs = append(fs, `"params":[]`)
			kind += "sendtx/params-empty"
		case p == 2:
			fs = append(fs, `"params":`+g.pick([]string{`[null]`, `[1]`, `["str"]`, `[[]]`, `[true]`, `[null,{}]`}))
			kind += "sendtx/param0-not-object"
		case p == 3:
			fs = append(fs, `"params":null`)
			kind += "sendtx/params-null"
		default:
			t, k := g.txn()
			extra := ""
			if g.r.Intn(6) == 0 {
				extra = `,"latest"`
			}
			fs = append(fs, `"params":[`+t+extra+`]`)
			kind += "sendtx/" + k
		}
	case c == 11:
		kind += "method-absent"
	default:
		m := g.pick(backendMethods)
		fs = append(fs, `"method":"`+m+`"`)
		switch g.r.Intn(5) {
		case 0:
		case 1:
			fs = append(fs, `"params":[]`)
		case 2:
			fs = append(fs, `"params":["0x1",{"a":[1,2,{"b":null}]},true,null,1.5e10]`)
		default:
			fs = append(fs, `"params":["latest"]`)
		}
		kind += "relay/" + m
	}
	if g.r.Intn(15) == 0 {
		fs = append(fs, `"extra":{"x":[1,2,3]}`)
	}
	if len(fs) > 1 && g.r.Intn(3) == 0 {
		i, j := g.r.Intn(len(fs)), g.r.Intn(len(fs))
		fs[i], fs[j] = fs[j], fs[i]
	}
	return "{" + strings.Join(fs, ",") + "}", kind
}

// a member that makes the typed decoding of the request fail, or is not a request at all
func (g *gen) badMember() (string, string) {
	switch g.r.Intn(14) {
	case 0:
		return `null`, "member-null"
	case 1:
		return g.pick([]string{`1`, `0`, `-1.5e3`}), "member-number"
	case 2:
		return g.pick([]string{`"x"`, `""`, `"eth_accounts"`}), "member-string"
	case 3:
		return g.pick([]string{`[]`, `[1]`, `[{"id":1,"method":"eth_accounts"}]`, `[null]`}), "member-array"
	case 4:
		return g.pick([]string{`true`, `false`}), "member-bool"
	case 5:
		return `{}`, "member-empty-object"
	case 6:
		return `{"id":1,"method":5}`, "member-method-number"
	case 7:
		return `{"id":1,"method":"eth_accounts","params":{"a":1}}`, "member-params-object"
	case 8:
		return `{"id":1,"method":"eth_accounts","params":"x"}`, "member-params-string"
	case 9:
		return `{"id":1,"jsonrpc":2,"method":"eth_accounts"}`, "member-jsonrpc-number"
	case 10:
		return `{"method":"eth_accounts"}`, "member-no-id"
	case 11:
		return `{"id":null,"method":"eth_accounts"}`, "member-id-null"
	case 12:
		return `{"id":7}`, "member-no-method"
	default:
		return `{"id":1,"method":["eth_accounts"]}`, "member-method-array"
	}
}

const okReq = `{"jsonrpc":"2.0","id":1,"method":"eth_accounts"}`

func ws(n int, set string, r *cv.Rand) []byte {
	b := make([]byte, n)
	for i := range b {
		b[i] = set[r.Intn(len(set))]
	}
	return b
}

func (g *gen) fixed(thorough bool) {
	held := g.heldAddr(0)
	// --- regression corpus: the witnesses of the repaired defects (D16a, D16b, D16d) stay here for ever
	g.adds("corpus/D16a", `[null]`)
	g.adds("corpus/D16a", `[{"id":1,"method":"t_rpcerr"},{"id":2,"method":"eth_accounts"},null]`)
	g.adds("corpus/D16a", `[null,null,null]`)
	g.adds("corpus/D16b", `{"jsonrpc":"2.0","id":1,"method":"eth_sendTransaction","params":[{"from":"zz"}]}`)
	g.adds("corpus/D16b", `{"id":1,"method":"eth_sendTransaction","params":[{"from":12}]}`)
	g.adds("corpus/D16b", `{"id":1,"method":"eth_sendTransaction","params":[{"from":null}]}`)
	g.adds("corpus/D16b", `[{"id":1,"method":"eth_sendTransaction","params":[{"from":"zz"}]}]`)
	g.adds("corpus/D16d", strings.Repeat(" ", 100)+`[`+okReq+`]`)
	g.adds("corpus/D16d", strings.Repeat(" ", 101)+`[`+okReq+`]`)
	g.adds("corpus/D16c", `{"id":1,"method":"t_http500_empty"}`)
	g.adds("corpus/D16e", `[{"id":1,"method":"t_rawnull"}]`)
	g.adds("corpus/D16e", `{"id":1,"method":"t_rawnull"}`)

	// --- every JSON value kind at top level
	for _, s := range []string{`null`, `true`, `false`, `0`, `1`, `-1`, `1.5`, `1e999`, `"x"`, `""`, `"eth_accounts"`, `[]`, `{}`, `[[]]`, `[[],[]]`, `[{}]`,
		`{"a":1}`, `[[[[[[[[[[[[1]]]]]]]]]]]]`, `{"id":1}`, `{"method":"eth_accounts"}`, `{"params":[]}`, `{"jsonrpc":"2.0"}`, `{"id":1,"params":[]}`,
		` null `, "\n\t[\r ]", `{"id":1,"method":"eth_accounts"} `, `[` + okReq + `]` + "\n"} {
		g.adds("top-level-kind", s)
	}
	// --- every kind as a single batch member, alone and next to a valid member (both orders)
	for _, s := range []string{`null`, `true`, `false`, `0`, `-1.5`, `"x"`, `[]`, `[1]`, `[null]`, `[` + okReq + `]`, `{}`, `{"a":1}`, `{"id":1}`, `{"method":"eth_accounts"}`,
		`{"id":null,"method":"eth_accounts"}`, `{"id":1,"method":"eth_accounts","params":{"a":1}}`, `{"id":1,"method":5}`, `{"id":1,"method":null}`, `{"id":1,"jsonrpc":5,"method":"eth_accounts"}`,
		`{"id":1,"method":"eth_sendTransaction","params":{"from":"` + held + `"}}`, `{"id":1,"method":"eth_sendTransaction","params":"x"}`} {
		g.adds("batch-member-kind", `[`+s+`]`)
		g.adds("batch-member-kind", `[`+okReq+`,`+s+`]`)
		g.adds("batch-member-kind", `[`+s+`,`+okReq+`,`+s+`]`)
	}
	// --- requests without method / id / params; params given as object, string, number; field kinds
	for _, s := range []string{
		`{"id":1,"method":"eth_accounts","params":{"a":1}}`, `{"id":1,"method":"eth_accounts","params":"x"}`, `{"id":1,"method":"eth_accounts","params":1}`,
		`{"id":1,"method":"eth_accounts","params":true}`, `{"id":1,"method":"eth_accounts","params":null}`, `{"id":1,"method":"eth_accounts","params":[null,null]}`,
		`{"id":1,"method":5}`, `{"id":1,"method":null}`, `{"id":1,"method":true}`, `{"id":1,"method":{}}`, `{"id":1,"method":[]}`, `{"id":1,"method":""}`,
		`{"id":1,"jsonrpc":2,"method":"eth_accounts"}`, `{"id":1,"jsonrpc":null,"method":"eth_accounts"}`, `{"id":1,"jsonrpc":"","method":"eth_accounts"}`, `{"id":1,"jsonrpc":[],"method":"eth_accounts"}`,
		`{"id":null,"method":"eth_accounts"}`, `{"method":"eth_accounts"}`, `{"method":"t_result_str"}`, `{"method":"eth_sendTransaction","params":[{"from":"` + held + `"}]}`,
		// key matching of encoding/json: case-insensitive, the two non-ASCII folds, duplicates (last wins, null resets a pointer)
		`{"ID":1,"METHOD":"eth_accounts"}`, `{"Id":1,"Method":"eth_accounts","PARAMS":[]}`, `{"iD":1,"mEtHoD":"eth_accounts","JsonRpc":"2.0"}`,
		"{\"id\":1,\"method\":\"eth_accounts\",\"param\u017f\":{\"a\":1}}", "{\"id\":1,\"method\":\"eth_accounts\",\"j\u017fonrpc\":5}", "{\"id\":1,\"method\":\"eth_accounts\",\"j\u017fonrpc\":\"2.0\"}",
		"{\"id\":1,\"method\":\"eth_accounts\",\"\u212aid\":null}", "{\"i\u0131d\":1,\"method\":\"eth_accounts\"}",
		`{"id":1,"id":2,"method":"eth_accounts"}`, `{"id":1,"id":null,"method":"eth_accounts"}`, `{"id":null,"id":3,"method":"eth_accounts"}`, `{"id":1,"ID":null,"method":"eth_accounts"}`,
		`{"id":1,"method":"t_rpcerr","method":"eth_accounts"}`, `{"id":1,"method":"eth_accounts","method":"t_rpcerr"}`, `{"id":1,"method":"eth_accounts","method":null}`,
		`{"id":1,"method":"eth_accounts","params":[1],"params":{"a":1}}`, `{"id":1,"method":"eth_accounts","params":{"a":1},"params":[1]}`,
		`{"id":1,"method":"eth_sendTransaction","params":[{"from":"` + held + `"}],"params":[]}`, `{"id":1,"method":"eth_sendTransaction","params":[],"params":[{"from":"` + held + `","nonce":"0x1"}]}`,
		`{"id":1,"method":"eth_accounts","":1,"id ":2," id":3}`, `{"id":1,"method":"eth_accounts\u0000"}`, `{"id":1,"method":"ETH_ACCOUNTS"}`, `{"id":1,"method":" eth_accounts"}`,
		`{"id":1,"method":"personal_accounts"}`, `{"id":1,"method":"eth_sendtransaction","params":[]}`,
	} {
		g.adds("request-field-kinds", s)
		g.adds("request-field-kinds", `[`+s+`]`)
	}
	// --- id forms, single and in a batch
	var members []string
	for i, id := range idForms {
		g.adds("id-forms", `{"jsonrpc":"2.0","id":`+id+`,"method":"eth_accounts"}`)
		g.adds("id-forms", `{"jsonrpc":"2.0","method":"`+backendMethods[i%len(backendMethods)]+`","id":`+id+`}`)
		members = append(members, `{"id":`+id+`,"method":"`+backendMethods[(i*7)%13]+`"}`)
	}
	g.adds("id-forms", `[`+strings.Join(members, ",")+`]`)
	// --- every backend behaviour, single and as a batch member between two local ones
	for _, m := range backendMethods {
		g.adds("backend-behaviour", `{"jsonrpc":"2.0","id":"b","method":"`+m+`","params":[1,"two",{"three":3}]}`)
		g.adds("backend-behaviour", `[`+okReq+`,{"jsonrpc":"2.0","id":"b","method":"`+m+`"},{"id":3,"method":"personal_accounts"}]`)
	}
	// --- members that finish in a forced order (the reply must wait for the slowest goroutine)
	for _, s := range []string{
		`[{"id":1,"method":"t_slow"},{"id":2,"method":"eth_accounts"}]`, `[{"id":1,"method":"eth_accounts"},{"id":2,"method":"t_slow"}]`,
		`[{"id":1,"method":"eth_accounts"},{"id":2,"method":"t_slow"},{"id":3,"method":"eth_accounts"},{"id":4,"method":"t_slow_err"},null]`,
		`[{"id":1,"method":"t_slow_err"},{"id":2,"method":"t_result_str"},{"id":3,"method":"t_slow"}]`, `[{"id":1,"method":"t_slow"}]`, `{"id":1,"method":"t_slow_err"}`,
		`[null,{"id":2,"method":"t_slow"}]`, `[{"id":2,"method":"t_slow"},null]`, `[{"method":"t_slow"},{"id":2,"method":"t_slow"},{"id":3}]`,
	} {
		g.adds("batch-completion-order", s)
	}
	// --- the same bytes framed differently by the client
	for _, mode := range []string{"no-ctype", "text-plain", "chunked"} {
		for _, s := range []string{okReq, `[` + okReq + `,null]`, `[null]`, ``, `{`, `[1]`, strings.Repeat(" ", 5000) + `[` + okReq + `]`,
			`{"id":1,"method":"eth_sendTransaction","params":[{"from":"zz"}]}`, `{"id":1,"method":"t_result_obj","params":["` + strings.Repeat("x", 100000) + `"]}`} {
			g.cases = append(g.cases, tcase{body: []byte(s), kind: "transport-variant", mode: mode})
		}
	}
	// --- eth_sendTransaction validation paths (parameter count, decode, from, nonce, signing)
	nf := g.keys[nonceFailKey].Hex()
	for _, p := range []string{
		``, `"params":[]`, `"params":null`, `"params":[null]`, `"params":[1]`, `"params":["x"]`, `"params":[[]]`, `"params":[true]`, `"params":[{}]`, `"params":[{"from":null}]`,
		`"params":[{"from":"` + held + `"}]`, `"params":[{"from":"` + held + `","nonce":"0x0"}]`, `"params":[{"from":"` + held + `","nonce":null}]`, `"params":[{"from":"` + held + `","nonce":"zz"}]`,
		`"params":[{"from":"` + held + `","gas":"zz"}]`, `"params":[{"from":"` + held + `","to":"0x12"}]`, `"params":[{"from":"` + held + `","data":"0xzz"}]`,
		`"params":[{"from":"` + held + `","to":"0x00000000000000000000000000000000000000bb","value":"0x1","gas":"0x5208","gasPrice":"0x1","data":"0x"}]`,
		`"params":[{"from":"` + held + `","maxFeePerGas":"0x10","maxPriorityFeePerGas":"0x1","nonce":"0x7"}]`,
		`"params":[{"from":"` + strings.ToUpper(held[2:]) + `"}]`, `"params":[{"FROM":"` + held + `","NONCE":"0x1"}]`, `"params":[{"from":"zz","from":"` + held + `"}]`, `"params":[{"from":"` + held + `","from":"zz"}]`,
		`"params":[{"from":"0x00000000000000000000000000000000000000aa"}]`, `"params":[{"from":"0x00000000000000000000000000000000000000aa","nonce":"0x1"}]`,
		`"params":[{"from":"` + nf + `"}]`, `"params":[{"from":"` + nf + `","nonce":"0x1"}]`,
		`"params":[{"from":"zz"}]`, `"params":[{"from":"zz","nonce":"0x1"}]`, `"params":[{"from":""}]`, `"params":[{"from":"0x"}]`, `"params":[{"from":"` + held + `00"}]`, `"params":[{"from":"` + held[:40] + `"}]`,
		`"params":[{"from":12}]`, `"params":[{"from":12,"nonce":"0x1"}]`, `"params":[{"from":true}]`, `"params":[{"from":{}}]`, `"params":[{"from":[]}]`, `"params":[{"from":["` + held + `"]}]`,
		`"params":[{"nonce":"0x1"}]`, `"params":[{"to":"0x00000000000000000000000000000000000000bb"}]`,
		`"params":[{"from":"` + held + `"},"latest"]`, `"params":[{"from":"` + held + `"},null,{}]`, `"params":[null,{"from":"` + held + `"}]`,
		`"params":[{"from":"` + held + `","value":-1}]`, `"params":[{"from":"` + held + `","value":"-1","nonce":"0x1"}]`, `"params":[{"from":"` + held + `","gas":1e400}]`,
		`"params":[{"from":"` + held + `","nonce":"0xffffffffffffffffffffffffffffffffffffffffffffffffffffffffffffffffff"}]`,
		`"params":[{"from":"` + held + `","data":"0x` + strings.Repeat("ab", 70000) + `"}]`,
	} {
		sep := ""
		if p != "" {
			sep = ","
		}
		g.adds("sendtx-paths", `{"jsonrpc":"2.0","id":9,"method":"eth_sendTransaction"`+sep+p+`}`)
		g.adds("sendtx-paths", `[{"jsonrpc":"2.0","id":9,"method":"eth_sendTransaction"`+sep+p+`},`+okReq+`]`)
	}
	// --- round 3: the backend refuses (or drops, or answers null to) the raw transaction after a successful
	// signature; every way the nonce lookup can fail; a null nonce answer.  Single and in a batch.
	for d := 1; d <= 6; d++ {
		to := `"to":"0x` + rawRefuseMarker + fmt.Sprint(d) + `"`
		for _, p := range []string{
			`"params":[{"from":"` + held + `","nonce":"0x1",` + to + `}]`,
			`"params":[{"from":"` + held + `",` + to + `,"maxFeePerGas":"0x10"}]`,
			`"params":[{"from":"` + nf + `","nonce":"0x0",` + to + `,"data":"0x01"}]`,
			`"params":[{"from":"` + nf + `",` + to + `}]`,
		} {
			g.adds("sendtx-raw-refused", `{"jsonrpc":"2.0","id":"r`+fmt.Sprint(d)+`","method":"eth_sendTransaction",`+p+`}`)
			g.adds("sendtx-raw-refused", `[`+okReq+`,{"jsonrpc":"2.0","id":"r`+fmt.Sprint(d)+`","method":"eth_sendTransaction",`+p+`},{"id":3,"method":"t_slow"}]`)
		}
	}
	g.adds("sendtx-raw-refused", `{"id":1,"method":"eth_sendRawTransaction","params":["0xdead"]}`)
	for i := range g.keys {
		a := g.keys[i].Hex()
		for _, p := range []string{`"params":[{"from":"` + a + `"}]`, `"params":[{"from":"` + a + `","nonce":"0x2"}]`, `"params":[{"from":"` + a + `","nonce":null,"gas":"0x5208"}]`} {
			g.adds("sendtx-nonce-lookup", `{"jsonrpc":"2.0","id":"n`+fmt.Sprint(i)+`","method":"eth_sendTransaction",`+p+`}`)
			g.adds("sendtx-nonce-lookup", `[{"jsonrpc":"2.0","id":"n`+fmt.Sprint(i)+`","method":"eth_sendTransaction",`+p+`},`+okReq+`]`)
		}
	}
	// --- round 3: a complete value followed by something (json.Unmarshal rejects it; a streaming decoder
	// would answer the first value)
	for _, base := range []string{okReq, `[` + okReq + `,null]`, `{"id":1,"method":"eth_sendTransaction","params":[{"from":"` + held + `","nonce":"0x1"}]}`} {
		for _, t := range []string{`x`, `]`, `}`, `,`, `{}`, `[]`, `null`, `1`, `""`, okReq, "\n" + okReq, ` [` + okReq + `]`, "\x00", ` ]`, `//c`, `,` + okReq, "\n\n{", "\xff"} {
			g.adds("trailing-after-value", base+t)
		}
	}
	// --- round 3: strings that are not valid UTF-8 / lone surrogates, wherever a string can stand
	for _, bad := range []string{"\xff\xfe", "\xc0\x80", "\xed\xa0\x80", `\ud800`, `\u0000`, "\xe2\x80\xa8", `\u2028<\u2029>&`} {
		g.adds("invalid-utf8", `{"jsonrpc":"2.0","id":"`+bad+`","method":"eth_accounts"}`)
		g.adds("invalid-utf8", `{"jsonrpc":"2.0","id":{"`+bad+`":["`+bad+`"]},"method":"t_result_str"}`)
		g.adds("invalid-utf8", `[{"id":"`+bad+`","method":"t_rpcerr"},{"id":2,"method":"eth_accounts`+bad+`"},{"id":3,"`+bad+`":1,"method":"eth_accounts"}]`)
		g.adds("invalid-utf8", `{"id":1,"method":"`+bad+`","params":["`+bad+`"]}`)
		g.adds("invalid-utf8", `{"id":"`+bad+`","method":"eth_sendTransaction","params":[{"from":"`+bad+`"}]}`)
		g.adds("invalid-utf8", `{"id":1,"method":"eth_sendTransaction","params":[{"from":"`+held+`","data":"`+bad+`","`+bad+`":1}]}`)
		g.adds("invalid-utf8", `{"id":1,"meth`+bad+`od":"eth_accounts","method":"t_result_obj"}`)
	}
	// --- round 3: the upload ends before the announced length / before the last chunk
	for _, s := range []string{okReq, `[` + okReq + `,null]`, ``, `{"id":1,"method":"eth_sendTransaction","params":[{"from":"` + held + `"}]}`, `[`, strings.Repeat(" ", 200) + `[` + okReq + `]`,
		`{"id":1,"method":"t_result_str","params":["` + strings.Repeat("x", 100000) + `"]}`} {
		for _, extra := range []int{1, 2, 4096} {
			g.cases = append(g.cases, tcase{body: []byte(s), kind: "upload-ends-early", mode: "short-length", extra: extra})
		}
		g.cases = append(g.cases, tcase{body: []byte(s), kind: "upload-ends-early", mode: "short-chunked"})
	}
	// --- leading whitespace: the sniff window boundary (99/100/101), far past it, and ~1 MiB
	lens := []int{0, 1, 2, 98, 99, 100, 101, 102, 127, 128, 255, 256, 1000, 4095, 4096, 4097, 65536}
	for _, n := range lens {
		for _, set := range []string{" ", " \t\n\r"} {
			pre := ws(n, set, g.r)
			g.add(fmt.Sprintf("leading-ws/%d/batch", n), append(append([]byte{}, pre...), `[`+okReq+`,{"id":2,"method":"t_result_str"}]`...))
			g.add(fmt.Sprintf("leading-ws/%d/single", n), append(append([]byte{}, pre...), okReq...))
		}
	}
	for _, n := range []int{99, 100, 101, 4096} {
		pre := ws(n, " ", g.r)
		g.add(fmt.Sprintf("leading-ws/%d/batch-null", n), append(append([]byte{}, pre...), `[null]`...))
		g.add(fmt.Sprintf("leading-ws/%d/batch-bad", n), append(append([]byte{}, pre...), `[1]`...))
		g.add(fmt.Sprintf("leading-ws/%d/empty-batch", n), append(append([]byte{}, pre...), `[]`...))
		g.add(fmt.Sprintf("leading-ws/%d/only", n), pre)
		g.add(fmt.Sprintf("leading-ws/%d/open-bracket", n), append(append([]byte{}, pre...), '['))
		g.add(fmt.Sprintf("leading-ws/%d/garbage", n), append(append([]byte{}, pre...), `x[`+okReq+`]`...))
	}
	mib := 1 << 20
	g.add("leading-ws/1MiB/batch", append(bytes.Repeat([]byte{' '}, mib-60), `[`+okReq+`]`...))
	g.add("leading-ws/1MiB/single", append(bytes.Repeat([]byte{'\n'}, mib-60), okReq...))
	g.add("leading-ws/1MiB/only", bytes.Repeat([]byte{' '}, mib))
	// --- bytes unicode.IsSpace accepts and JSON does not (VT, FF, NEL 0x85, NBSP 0xA0 and their UTF-8 forms)
	for _, pre := range []string{"\x0b", "\x0c", "\x85", "\xa0", "\xc2\x85", "\xc2\xa0", " \x85 ", "\xa0\xa0\xa0", "\x1c", "\x1f", "\xe2\x80\x83", "\xef\xbb\xbf", "\x00"} {
		for _, rest := range []string{`[` + okReq + `]`, okReq, `[null]`, `[]`, ``} {
			g.adds("go-space-not-json-space", pre+rest)
			g.adds("go-space-not-json-space", strings.Repeat(pre, 101)+rest)
		}
	}
	// --- deep nesting around encoding/json's limit of 10 000
	for _, d := range []int{100, 9990, 9998, 9999, 10000, 10001, 10002, 20000} {
		o, c := strings.Repeat("[", d), strings.Repeat("]", d)
		g.adds(fmt.Sprintf("deep/top-array/%d", d), o+c)
		if d <= 10002 {
			g.adds(fmt.Sprintf("deep/id/%d", d), `{"method":"eth_accounts","id":`+o+c+`}`)
			g.adds(fmt.Sprintf("deep/params/%d", d), `{"id":1,"method":"t_result_str","params":[`+o+c+`]}`)
			g.adds(fmt.Sprintf("deep/batch-id/%d", d), `[{"method":"eth_accounts","id":`+o+`1`+c+`},`+okReq+`]`)
			g.adds(fmt.Sprintf("deep/sendtx-param/%d", d), `{"id":1,"method":"eth_sendTransaction","params":[`+o+c+`]}`)
		}
		g.adds(fmt.Sprintf("deep/top-object/%d", d), strings.Repeat(`{"a":`, d)+`1`+strings.Repeat("}", d))
		g.adds(fmt.Sprintf("deep/unclosed/%d", d), o)
	}
	// --- batch sizes
	sizes := []int{1, 2, 3, 16, 63, 64, 65, 200}
	if thorough {
		sizes = append(sizes, 1000, 5000)
	}
	for _, n := range sizes {
		ms := make([]string, n)
		for i := range ms {
			ms[i] = fmt.Sprintf(`{"jsonrpc":"2.0","id":%d,"method":"eth_accounts"}`, i)
		}
		g.adds(fmt.Sprintf("batch-size/%d/local", n), `[`+strings.Join(ms, ",")+`]`)
		if n <= 64 {
			for i := range ms {
				ms[i] = fmt.Sprintf(`{"jsonrpc":"2.0","id":%d,"method":"%s"}`, i, backendMethods[i%13])
			}
			g.adds(fmt.Sprintf("batch-size/%d/backend-mix", n), `[`+strings.Join(ms, ",")+`]`)
		}
		for i := range ms {
			ms[i] = `null`
		}
		g.adds(fmt.Sprintf("batch-size/%d/all-null", n), `[`+strings.Join(ms, ",")+`]`)
	}
	// round 3: sizes around powers of two (chunked / pooled processing would show at such a boundary)
	for _, n := range []int{127, 128, 129, 255, 256, 257, 511, 512, 513, 1023, 1024, 1025} {
		ms := make([]string, n)
		for i := range ms {
			ms[i] = fmt.Sprintf(`{"id":%d,"method":"%s"}`, i, []string{"eth_accounts", "personal_accounts", "t_result_str", "eth_accounts"}[i%4])
		}
		ms[n-1] = `{"id":"last","method":"t_rpcerr"}`
		g.adds(fmt.Sprintf("batch-size/%d/mix", n), `[`+strings.Join(ms, ",")+`]`)
	}
	bigN := 3000
	if thorough {
		bigN = 20000
	}
	g.adds(fmt.Sprintf("batch-size/%d/local", bigN), `[`+strings.Repeat(okReq+`,`, bigN-1)+okReq+`]`)
	g.adds(fmt.Sprintf("batch-size/%d/all-null", bigN), `[`+strings.Repeat(`null,`, bigN-1)+`null]`)
	g.adds(fmt.Sprintf("batch-size/%d/null-then-valid", bigN), `[`+strings.Repeat(`null,`, bigN-1)+okReq+`]`)
	// --- up to 1 MiB: one huge string parameter, one huge id, a huge unknown member
	big := strings.Repeat("a", mib-200)
	g.adds("large/1MiB-param", `{"id":1,"method":"t_result_str","params":["`+big+`"]}`)
	g.adds("large/1MiB-id", `{"id":"`+big+`","method":"eth_accounts"}`)
	g.adds("large/1MiB-ignored-member", `{"id":1,"method":"eth_accounts","junk":"`+big+`"}`)
	g.adds("large/1MiB-unterminated-string", `{"id":1,"method":"eth_accounts","junk":"`+big)
	// round 3: bodies of exactly 1 MiB (the upper end of the property's quantifier) that must be *processed*
	pad := func(prefix, suffix string, fill byte) []byte {
		b := append([]byte(prefix), bytes.Repeat([]byte{fill}, mib-len(prefix)-len(suffix))...)
		return append(b, suffix...)
	}
	g.add("large/exactly-1MiB/single", pad(`{"id":"big","method":"t_result_str","params":["`, `"]}`, 'p'))
	g.add("large/exactly-1MiB/single-ws-inside", pad(`{"id":"big","method":"eth_accounts"`, `}`, ' '))
	g.add("large/exactly-1MiB/batch", pad(`[`+okReq+`,{"id":"big","method":"t_result_str","params":["`, `"]},null]`, 'q'))
	g.add("large/exactly-1MiB/batch-leading-ws", pad(``, `[`+okReq+`,`+okReq+`]`, ' '))
	g.add("large/exactly-1MiB/single-trailing-ws", pad(okReq, ``, '\n'))
	g.add("large/exactly-1MiB/sendtx-data", pad(`{"id":"big","method":"eth_sendTransaction","params":[{"from":"`+held+`","nonce":"0x1","data":"0x`, `"}]}`, 'a'))
	if thorough {
		g.add("large/1MiB-random", g.r.Bytes(mib))
	} else {
		g.add("large/256KiB-random", g.r.Bytes(mib/4))
	}
	g.add("large/1MiB-zeros", make([]byte, mib))
}

func (g *gen) random(n int) {
	// structured random singles and batches
	for i := 0; i < n; i++ {
		switch c := g.r.Intn(10); {
		case c < 4:
			s, k := g.request()
			g.adds("random-single/"+k, s)
		default:
			m := 1 + g.r.Intn(6)
			if g.r.Intn(8) == 0 {
				m = 1 + g.r.Intn(64)
			}
			ms := make([]string, m)
			bad := 0
			for j := range ms {
				if g.r.Intn(9) == 0 {
					ms[j], _ = g.badMember()
					bad++
				} else {
					ms[j], _ = g.request()
				}
			}
			sep := ","
			if g.r.Intn(5) == 0 {
				sep = " ,\n\t"
			}
			g.adds(fmt.Sprintf("random-batch/bad-members=%d", min(bad, 3)), `[`+strings.Join(ms, sep)+`]`)
		}
	}
}

func (g *gen) malformed(n int) {
	// truncations of valid bodies at every length (small bodies) and at random cuts
	base := []string{okReq, `[` + okReq + `,null,{"id":"x","method":"t_rpcerr","params":[1,{"a":"b"}]}]`,
		`{"jsonrpc":"2.0","id":1,"method":"eth_sendTransaction","params":[{"from":"` + g.heldAddr(0) + `","nonce":"0x1"}]}`}
	for _, b := range base[:2] {
		for k := 0; k < len(b); k++ {
			g.adds("truncated", b[:k])
		}
	}
	for i := 0; i < n; i++ {
		var s string
		if g.r.Bool() {
			s, _ = g.request()
		} else {
			a, _ := g.request()
			b, _ := g.badMember()
			c, _ := g.request()
			s = `[` + a + `,` + b + `,` + c + `]`
		}
		b := []byte(s)
		switch g.r.Intn(7) {
		case 0:
			b = b[:g.r.Intn(len(b)+1)]
			g.add("malformed/truncate", b)
		case 1:
			b[g.r.Intn(len(b))] = g.r.Byte()
			g.add("malformed/flip", b)
		case 2:
			j := g.r.Intn(len(b))
			b = append(b[:j], b[j+1:]...)
			g.add("malformed/delete", b)
		case 3:
			j := g.r.Intn(len(b) + 1)
			insSet := `[]{}",:0n `
			ins := []byte{insSet[g.r.Intn(len(insSet))]}
			b = append(b[:j], append(ins, b[j:]...)...)
			g.add("malformed/insert", b)
		case 4:
			g.add("malformed/trailing", append(b, g.pick([]string{`x`, `]`, `}`, ` ` + okReq, `,`, "\x00"})...))
		case 5:
			g.add("malformed/doubled", append(append([]byte{}, b...), b...))
		default:
			j := g.r.Intn(len(b))
			k := j + g.r.Intn(len(b)-j)
			g.add("malformed/cut-middle", append(append([]byte{}, b[:j]...), b[k:]...))
		}
	}
	// arbitrary bytes
	for i := 0; i < n; i++ {
		l := g.r.Intn(64)
		switch g.r.Intn(10) {
		case 0:
			l = g.r.Intn(4096)
		case 1:
			l = g.r.Intn(65536)
		}
		b := g.r.Bytes(l)
		if l > 0 && g.r.Bool() {
			lead := "[{ \t\n\"n1-"
			b[0] = lead[g.r.Intn(len(lead))]
		}
		g.add("random-bytes", b)
	}
	for _, l := range []int{0, 1} {
		for c := 0; c < 256 && l == 1; c++ {
			g.add("single-byte", []byte{byte(c)})
		}
		if l == 0 {
			g.add("empty-body", nil)
		}
	}
}

// burst: bodies POSTed concurrently to one process (round 3).  Every id carries the sequence number and
// the position, so a response slot or a whole reply that ends up in another request's answer is seen as
// an id mismatch by the model comparison; slow members keep several batches in flight at once.
func (g *gen) burst(seq int, thorough bool) []tcase {
	n := 12
	if thorough {
		n = 24
	}
	var out []tcase
	id := func(k, j int) string { return fmt.Sprintf(`"c%d-%d-%d"`, seq, k, j) }
	member := func(k, j int) string {
		switch c := g.r.Intn(14); {
		case c < 3:
			return `{"jsonrpc":"2.0","id":` + id(k, j) + `,"method":"eth_accounts"}`
		case c < 6:
			return `{"jsonrpc":"2.0","id":` + id(k, j) + `,"method":"` + g.pick([]string{"t_slow", "t_slow", "t_slow_err"}) + `"}`
		case c < 8:
			return `{"jsonrpc":"2.0","id":` + id(k, j) + `,"method":"` + g.pick(backendMethods[:14]) + `","params":[` + id(k, j) + `]}`
		case c == 8:
			return `null`
		case c == 9:
			return `{"method":"eth_accounts"}`
		case c == 10:
			return `{"id":` + id(k, j) + `}`
		case c == 11:
			return `{"id":` + id(k, j) + `,"method":"eth_sendTransaction","params":[{"from":"` + g.heldAddr(g.r.Intn(len(g.keys))) + `"}]}`
		case c == 12:
			return `{"id":` + id(k, j) + `,"method":"eth_sendTransaction","params":[{"from":"` + g.heldAddr(0) + `","nonce":"0x` + fmt.Sprintf("%x", g.r.Intn(100)) + `","to":"0x` + rawRefuseMarker + fmt.Sprint(1+g.r.Intn(6)) + `"}]}`
		default:
			return `{"id":` + id(k, j) + `,"method":"eth_sendTransaction","params":[{"from":"zz"}]}`
		}
	}
	for k := 0; k < n; k++ {
		var body string
		switch c := g.r.Intn(10); {
		case c < 5:
			m := 2 + g.r.Intn(6)
			if g.r.Intn(6) == 0 {
				m = 20 + g.r.Intn(50)
			}
			ms := make([]string, m)
			for j := range ms {
				ms[j] = member(k, j)
			}
			body = `[` + strings.Join(ms, ",") + `]`
		case c < 8:
			body = member(k, 0)
			if body == `null` {
				body = `[null]`
			}
		case c == 8:
			body = g.pick([]string{`[`, `{"id":` + id(k, 0), `[1]`, `[]`, ``, `[` + member(k, 0) + `,1]`, member(k, 0) + `x`})
		default:
			body = strings.Repeat(" ", g.r.Intn(300)) + `[` + member(k, 0) + `,` + member(k, 1) + `]`
		}
		out = append(out, tcase{body: []byte(body), kind: "concurrent/" + fmt.Sprint(seq)})
	}
	return out
}
