package main

// Case-file writer: same file naming and protocol as cv.Writer (cases_<ID>_<k>.v printing M, plus a
// parallel .jsonl with one description per case, same order), but every case is its own Definition:
// type-checking one list literal holding megabyte-sized terms is several times slower than checking
// the terms one by one.

import (
	"bufio"
	"encoding/json"
	"fmt"
	"os"
	"path/filepath"
	"strings"
)

type caseWriter struct {
	dir, id, header string
	shards          int
	cases           [][]string
	descs           [][]json.RawMessage
	weight          []int
	n               int
}

func newCaseWriter(dir, id, header string, shards int) *caseWriter {
	return &caseWriter{dir: dir, id: id, header: header, shards: shards, cases: make([][]string, shards), descs: make([][]json.RawMessage, shards), weight: make([]int, shards)}
}

// Add puts the case on the currently lightest shard (by term size), so that the few huge cases do not
// pile up in one file.
func (w *caseWriter) Add(term string, desc interface{}) {
	k := 0
	for i := range w.weight {
		if w.weight[i] < w.weight[k] {
			k = i
		}
	}
	w.cases[k] = append(w.cases[k], term)
	b, _ := json.Marshal(desc)
	w.descs[k] = append(w.descs[k], b)
	w.weight[k] += len(term) + 2000
	w.n++
}

func (w *caseWriter) Count() int { return w.n }

func (w *caseWriter) Flush() error {
	for k := 0; k < w.shards; k++ {
		if len(w.cases[k]) == 0 {
			continue
		}
		base := filepath.Join(w.dir, fmt.Sprintf("cases_%s_%d", w.id, k))
		f, err := os.Create(base + ".v")
		if err != nil {
			return err
		}
		bw := bufio.NewWriterSize(f, 1<<20)
		fmt.Fprintln(bw, w.header)
		names := make([]string, len(w.cases[k]))
		for i, c := range w.cases[k] {
			names[i] = fmt.Sprintf("c%d", i)
			fmt.Fprintf(bw, "Definition c%d : case := %s.\n", i, c)
		}
		fmt.Fprintf(bw, "Definition cases : list case := [%s].\n", strings.Join(names, "; "))
		fmt.Fprintln(bw, "Definition M := Eval vm_compute in (mismatches cases).\nPrint M.")
		if err := bw.Flush(); err != nil {
			return err
		}
		f.Close()
		g, err := os.Create(base + ".jsonl")
		if err != nil {
			return err
		}
		gw := bufio.NewWriterSize(g, 1<<20)
		for _, d := range w.descs[k] {
			gw.Write(d)
			gw.WriteByte('\n')
		}
		if err := gw.Flush(); err != nil {
			return err
		}
		g.Close()
	}
	return nil
}
