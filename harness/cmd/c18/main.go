// Harness of C18: drives the HTTP RPC client (pkg/rpcbackend/backend.go) and the WebSocket RPC client
// (pkg/rpcbackend/wsbackend.go) through their public API against scripted backends, one operation at a
// time, and writes the operation sequences with everything observed for the Coq evaluator
// (WsClient/Run.v).  Also runs free-running concurrent workloads whose oracles (in-flight bound, id
// uniqueness, id restoration, reply pairing, no hang after reconnect) are evaluated here.
package main

import (
	"context"
	"encoding/json"
	"errors"
	"flag"
	"fmt"
	"io"
	"net"
	"net/http"
	"net/http/httptest"
	"os"
	"os/exec"
	"os/signal"
	"path/filepath"
	"runtime"
	"sort"
	"strconv"
	"strings"
	"sync"
	"sync/atomic"
	"syscall"
	"time"

	"github.com/go-resty/resty/v2"
	"github.com/gorilla/websocket"
	"github.com/hyperledger/firefly-common/pkg/fftypes"
	"github.com/hyperledger/firefly-common/pkg/wsclient"
	"github.com/hyperledger/firefly-signer/pkg/rpcbackend"
	"github.com/sirupsen/logrus"

	"verifharness/cv"
)

const longWait = 10 * time.Second
const notifWait = 2 * time.Second
const returnWait = 3 * time.Second

var grace = 3 * time.Millisecond

// journal of every operation performed, written through as it happens: if the client under test brings
// the process down (a panic in one of its goroutines cannot be recovered here), the supervising parent
// process reports the history that led to it as a failing input
var journal *os.File

func jlog(format string, a ...interface{}) {
	if journal != nil {
		fmt.Fprintf(journal, format+"\n", a...)
	}
}

// ---------------------------------------------------------------------------------------------
// Coq printing helpers
// ---------------------------------------------------------------------------------------------

func optN(p *uint64) string {
	if p == nil {
		return "None"
	}
	return fmt.Sprintf("(Some %d)", *p)
}
func u(v uint64) *uint64 { return &v }
func coqBool(b bool) string {
	if b {
		return "true"
	}
	return "false"
}

// result / sub-id strings: "0x<hex>" codes the number, anything else is "not a usable string"
func hexStr(v uint64) string { return fmt.Sprintf("0x%x", v) }
func parseHexJSON(raw []byte) *uint64 {
	var s string
	if json.Unmarshal(raw, &s) != nil || !strings.HasPrefix(s, "0x") {
		return nil
	}
	n, err := strconv.ParseUint(s[2:], 16, 63)
	if err != nil {
		return nil
	}
	return &n
}

// request ids as the clients print them: a JSON string of decimal digits
func parseReqID(raw json.RawMessage) (uint64, bool) {
	var s string
	if json.Unmarshal(raw, &s) != nil || s == "" {
		return 0, false
	}
	for _, c := range s {
		if c < '0' || c > '9' {
			return 0, false
		}
	}
	n, err := strconv.ParseUint(s, 10, 63)
	return n, err == nil
}
func fmtReqID(n uint64) string { return fmt.Sprintf(`"%09d"`, n) }

type quietLog struct{}

func (quietLog) Errorf(string, ...interface{}) {}
func (quietLog) Warnf(string, ...interface{})  {}
func (quietLog) Debugf(string, ...interface{}) {}

// ---------------------------------------------------------------------------------------------
// HTTP
// ---------------------------------------------------------------------------------------------

type hArrival struct {
	c       int
	idRaw   json.RawMessage
	release chan hReply
	done    chan struct{} // closed when the request no longer counts as outstanding at the backend
	counted *int32        // 1 while it counts as outstanding
}
type hReply struct {
	status int
	body   string
	hangup bool
}
type hResult struct {
	c   int
	res *rpcbackend.RPCResponse
	err error
	pan interface{}
}

type hBackend struct {
	srv      *httptest.Server
	arrivals chan hArrival
	cur, max int64
}

func newHBackend() *hBackend {
	b := &hBackend{arrivals: make(chan hArrival, 256)}
	b.srv = httptest.NewServer(http.HandlerFunc(func(w http.ResponseWriter, r *http.Request) {
		body, _ := io.ReadAll(r.Body)
		var req struct {
			ID     json.RawMessage   `json:"id"`
			Params []json.RawMessage `json:"params"`
		}
		_ = json.Unmarshal(body, &req)
		c := -1
		if len(req.Params) > 0 {
			_ = json.Unmarshal(req.Params[0], &c)
		}
		n := atomic.AddInt64(&b.cur, 1)
		for {
			m := atomic.LoadInt64(&b.max)
			if n <= m || atomic.CompareAndSwapInt64(&b.max, m, n) {
				break
			}
		}
		one := int32(1)
		a := hArrival{c: c, idRaw: req.ID, release: make(chan hReply, 1), done: make(chan struct{}), counted: &one}
		b.arrivals <- a
		select {
		case rep := <-a.release:
			// the request stops being outstanding before the client can see the answer
			b.uncount(a)
			close(a.done)
			if rep.hangup {
				if hj, ok := w.(http.Hijacker); ok {
					conn, _, err := hj.Hijack()
					if err == nil {
						conn.Close()
					}
				}
				return
			}
			w.Header().Set("Content-Type", "application/json")
			w.WriteHeader(rep.status)
			_, _ = w.Write([]byte(rep.body))
		case <-r.Context().Done():
			b.uncount(a)
			close(a.done)
		}
	}))
	return b
}

func (b *hBackend) uncount(a hArrival) {
	if atomic.CompareAndSwapInt32(a.counted, 1, 0) {
		atomic.AddInt64(&b.cur, -1)
	}
}

// the caller's own id: a JSON value and its code in the model
func origID(r *cv.Rand, c int) (string, uint64) {
	switch r.Intn(4) {
	case 0:
		return fmt.Sprintf(`"req-%d"`, c), uint64(2000000 + c)
	case 1:
		return fmt.Sprintf(`"%09d"`, c+1), uint64(3000000 + c) // looks like a backend id
	default:
		return strconv.Itoa(7*c + 1), uint64(1000000 + c)
	}
}

type hOutObs struct {
	Err  bool    `json:"err"`
	ID   uint64  `json:"id"`
	Res  *uint64 `json:"res"`
	Code uint64  `json:"code"`
}

func (o hOutObs) coq() string {
	return fmt.Sprintf("{| ho_err := %s; ho_id := %d; ho_res := %s; ho_code := %d |}", coqBool(o.Err), o.ID, optN(o.Res), o.Code)
}

func observeH(res *rpcbackend.RPCResponse, err error, origRaw string, origCode uint64) hOutObs {
	o := hOutObs{Err: err != nil}
	if res == nil {
		o.ID = 999998
		return o
	}
	switch {
	case res.ID == nil:
		o.ID = 999997
	case string(*res.ID) == origRaw:
		o.ID = origCode
	default:
		o.ID = 999999
	}
	if res.Result != nil {
		raw := []byte(*res.Result)
		if string(raw) == "null" {
			o.Res = u(0)
		} else if v := parseHexJSON(raw); v != nil {
			o.Res = v
		} else {
			o.Res = u(999999)
		}
	}
	if res.Error != nil {
		c := res.Error.Code
		if c < 0 {
			c = -c
		}
		o.Code = uint64(c)
	}
	return o
}

type httpDesc struct {
	Kind    string        `json:"kind"`
	Limit   int           `json:"limit"`
	Callers int           `json:"callers"`
	Ops     []string      `json:"ops"`
	Key     string        `json:"key,omitempty"`
	Extra   []interface{} `json:"extra,omitempty"`
}

// one scripted HTTP case
func runHTTPCase(r *cv.Rand, st *cv.Stats, limit, nCallers int, fails *[]interface{}) (string, httpDesc) {
	b := newHBackend()
	defer b.srv.Close()
	rc := rpcbackend.NewRPCClientWithOption(resty.New().SetLogger(quietLog{}).SetBaseURL(b.srv.URL), rpcbackend.RPCClientOptions{MaxConcurrentRequest: int64(limit)})
	results := make(chan hResult, 256)
	type caller struct {
		origRaw  string
		origCode uint64
		cancel   context.CancelFunc
	}
	callers := map[int]*caller{}
	waiting := []int{}       // started, not yet seen at the backend (in order of start)
	at := map[int]hArrival{} // at the backend
	var ops, dops []string
	seenBeIDs := map[uint64]bool{}
	allBeIDs := []uint64{}
	add := func(coq, d string) { ops = append(ops, coq); dops = append(dops, d) }

	settle := func() {
		// expected arrivals
		for {
			exp := len(waiting)
			if limit > 0 && limit-len(at) < exp {
				exp = limit - len(at)
			}
			var a hArrival
			if exp > 0 {
				select {
				case a = <-b.arrivals:
				case <-time.After(longWait):
					return
				}
			} else {
				select {
				case a = <-b.arrivals:
				case <-time.After(grace):
					return
				}
			}
			id, ok := parseReqID(a.idRaw)
			if !ok {
				id = 0
			}
			at[a.c] = a
			for i, w := range waiting {
				if w == a.c {
					waiting = append(waiting[:i], waiting[i+1:]...)
					break
				}
			}
			seenBeIDs[id] = true
			allBeIDs = append(allBeIDs, id)
			add(fmt.Sprintf("HOArrive %d %d", a.c, id), fmt.Sprintf("arrive c=%d id=%s", a.c, a.idRaw))
		}
	}
	waitResult := func(c int) (hResult, bool) {
		deadline := time.After(longWait)
		for {
			select {
			case res := <-results:
				if res.c == c {
					return res, true
				}
				// a result of another caller that nobody asked for: report it
				*fails = append(*fails, map[string]interface{}{"what": "SyncRequest returned without a reply having been released", "caller": res.c})
			case <-deadline:
				return hResult{}, false
			}
		}
	}

	next := 0
	nOps := 3*nCallers + 4
	for step := 0; step < nOps || len(at)+len(waiting) > 0; step++ {
		finishing := step >= nOps
		choice := r.Intn(10)
		switch {
		case !finishing && next < nCallers && (choice < 5 || len(at)+len(waiting) == 0):
			c := next
			next++
			raw, code := origID(r, c)
			ctx, cancel := context.WithCancel(context.Background())
			callers[c] = &caller{raw, code, cancel}
			waiting = append(waiting, c)
			add(fmt.Sprintf("HOStart %d %d", c, code), fmt.Sprintf("start c=%d id=%s", c, raw))
			go func() {
				defer func() {
					if p := recover(); p != nil {
						results <- hResult{c: c, pan: p}
					}
				}()
				res, err := rc.SyncRequest(ctx, &rpcbackend.RPCRequest{ID: fftypes.JSONAnyPtr(raw), Method: "verif_http", Params: []*fftypes.JSONAny{fftypes.JSONAnyPtr(strconv.Itoa(c))}})
				results <- hResult{c: c, res: res, err: err}
			}()
			settle()
		case len(waiting) > 0 && limit > 0 && len(at) >= limit && choice == 9:
			// cancel a caller that is blocked on the semaphore (no slot is free, so only ctx.Done can fire)
			c := waiting[r.Intn(len(waiting))]
			callers[c].cancel()
			res, ok := waitResult(c)
			if !ok {
				*fails = append(*fails, map[string]interface{}{"what": "SyncRequest did not return after its context was cancelled while waiting for a slot", "caller": c, "limit": limit})
				return "", httpDesc{}
			}
			for i, w := range waiting {
				if w == c {
					waiting = append(waiting[:i], waiting[i+1:]...)
					break
				}
			}
			o := observeH(res.res, res.err, callers[c].origRaw, callers[c].origCode)
			add(fmt.Sprintf("HOCancelWait %d %s", c, o.coq()), fmt.Sprintf("cancel-waiting c=%d", c))
			st.Hit("http:cancel-waiting")
			settle()
		case len(at) > 0:
			// answer one outstanding request
			keys := []int{}
			for c := range at {
				keys = append(keys, c)
			}
			sort.Ints(keys)
			c := keys[r.Intn(len(keys))]
			a := at[c]
			beid, _ := parseReqID(a.idRaw)
			// the id the backend echoes: its own, another request's, the caller's, rubbish, none
			echo := string(a.idRaw)
			echoCode := beid
			switch r.Intn(8) {
			case 0:
				if len(allBeIDs) > 1 {
					o := allBeIDs[r.Intn(len(allBeIDs))]
					echo, echoCode = fmtReqID(o), o
					st.Hit("http:echo-other-request")
				}
			case 1:
				echo, echoCode = callers[c].origRaw, callers[c].origCode
				st.Hit("http:echo-caller-id")
			case 2:
				echo, echoCode = `{"x":[1,2]}`, 888888
				st.Hit("http:echo-rubbish")
			case 3:
				echo, echoCode = "null", 888887
				st.Hit("http:echo-null")
			}
			var rep hReply
			var rcoq, rdesc string
			val := uint64(4096 + 97*c + step)
			k := r.Intn(20)
			switch {
			case k < 9:
				rep = hReply{status: 200, body: fmt.Sprintf(`{"jsonrpc":"2.0","id":%s,"result":"%s"}`, echo, hexStr(val))}
				rcoq, rdesc = fmt.Sprintf("(HRResult %d %d)", echoCode, val), "result"
			case k < 11:
				bodies := []string{`{"jsonrpc":"2.0","id":%s}`, `{"jsonrpc":"2.0","id":%s,"result":null}`, `{"id":%s,"error":{"code":0,"message":"zero"}}`}
				rep = hReply{status: 200, body: fmt.Sprintf(bodies[r.Intn(len(bodies))], echo)}
				rcoq, rdesc = fmt.Sprintf("(HRNoResult %d)", echoCode), "no-result"
			case k < 14:
				code := uint64(32000 + r.Intn(500))
				status := []int{200, 500, 400}[r.Intn(3)]
				rep = hReply{status: status, body: fmt.Sprintf(`{"jsonrpc":"2.0","id":%s,"error":{"code":-%d,"message":"boom"}}`, echo, code)}
				rcoq, rdesc = fmt.Sprintf("(HRRpcError %d %d)", echoCode, code), fmt.Sprintf("rpc-error status=%d", status)
			case k < 16:
				bodies := []string{"", "<html>bad gateway</html>", "{}", `{"jsonrpc":"2.0","id":1,"result":"0x5"}`, "null", `{"error":{"code":0,"message":"zero"}}`}
				status := []int{500, 502, 404, 503}[r.Intn(4)]
				rep = hReply{status: status, body: bodies[r.Intn(len(bodies))]}
				rcoq, rdesc = "HRStatus", fmt.Sprintf("status=%d body=%q", status, rep.body)
			case k < 17:
				rep = hReply{status: 200, body: "null"}
				rcoq, rdesc = "HRNullBody", "null-body"
			case k < 18:
				rep = hReply{status: 200, body: []string{"{!!", "", "[]", `"str"`}[r.Intn(4)]}
				rcoq, rdesc = "HRBadJSON", fmt.Sprintf("bad-json %q", rep.body)
			case k < 19:
				rep = hReply{hangup: true}
				rcoq, rdesc = "HRTransport", "hangup"
			default:
				rcoq, rdesc = "HRTransport", "ctx-cancel-at-backend"
			}
			st.Hit("http:reply:" + strings.SplitN(strings.Trim(rcoq, "()"), " ", 2)[0])
			if rdesc == "ctx-cancel-at-backend" {
				// the client abandons the request: from here on it no longer counts as outstanding, although
				// the server side only notices the closed connection a little later
				b.uncount(a)
				callers[c].cancel()
			} else {
				a.release <- rep
			}
			select {
			case <-a.done:
			case <-time.After(longWait):
			}
			res, ok := waitResult(c)
			if !ok {
				*fails = append(*fails, map[string]interface{}{"what": "SyncRequest did not return after the backend answered", "caller": c, "reply": rdesc})
				return "", httpDesc{}
			}
			delete(at, c)
			if res.pan != nil {
				*fails = append(*fails, map[string]interface{}{"what": "SyncRequest panicked", "reply": rdesc, "body": rep.body, "panic": fmt.Sprint(res.pan)})
				return "", httpDesc{}
			}
			o := observeH(res.res, res.err, callers[c].origRaw, callers[c].origCode)
			add(fmt.Sprintf("HOReply %d %s %s", c, rcoq, o.coq()), fmt.Sprintf("reply c=%d %s echo=%s -> err=%v id=%d res=%v code=%d", c, rdesc, echo, o.Err, o.ID, o.Res, o.Code))
			settle()
		default:
			settle()
		}
		if r.Intn(4) == 0 || finishing {
			add(fmt.Sprintf("HOQuiet %d", len(at)), fmt.Sprintf("quiet outstanding=%d", len(at)))
		}
		if step > 40*nCallers+100 {
			break
		}
	}
	if m := atomic.LoadInt64(&b.max); limit > 0 && m > int64(limit) {
		*fails = append(*fails, map[string]interface{}{"what": "more requests outstanding at the backend than the configured limit", "limit": limit, "measured": m, "callers": nCallers})
	}
	st.Hit(fmt.Sprintf("http:limit=%d", limit))
	coq := fmt.Sprintf("CHttp %d [%s]", limit, strings.Join(ops, "; "))
	return coq, httpDesc{Kind: "http", Limit: limit, Callers: nCallers, Ops: dops}
}

// free-running concurrent workload: every caller issues several requests; the backend answers after a
// short random delay, echoing a wrong id half of the time.
func runHTTPStress(r *cv.Rand, st *cv.Stats, limit, nCallers, perCaller int, fails *[]interface{}) {
	var cur, max, plain int64
	var mu sync.Mutex
	ids := map[string]int{}
	srv := httptest.NewServer(http.HandlerFunc(func(w http.ResponseWriter, req *http.Request) {
		n := atomic.AddInt64(&cur, 1)
		for {
			m := atomic.LoadInt64(&max)
			if n <= m || atomic.CompareAndSwapInt64(&max, m, n) {
				break
			}
		}
		body, _ := io.ReadAll(req.Body)
		var rq struct {
			ID     json.RawMessage   `json:"id"`
			Method string            `json:"method"`
			Params []json.RawMessage `json:"params"`
		}
		_ = json.Unmarshal(body, &rq)
		if rq.Method == "verif_plain" {
			atomic.AddInt64(&plain, 1) // the second client below (own id counter)
		} else {
			mu.Lock()
			ids[string(rq.ID)]++
			mu.Unlock()
		}
		time.Sleep(time.Duration(200+len(body)%7*100) * time.Microsecond)
		atomic.AddInt64(&cur, -1)
		w.Header().Set("Content-Type", "application/json")
		echo := string(rq.ID)
		if len(body)%2 == 0 {
			echo = `"000000001"`
		}
		p0 := "0"
		if len(rq.Params) > 0 {
			p0 = string(rq.Params[0])
		}
		if len(rq.Params) > 1 && string(rq.Params[1]) == "true" {
			// a JSON-RPC error whose message names the request it answers
			if len(body)%3 == 0 {
				w.WriteHeader(500)
			}
			fmt.Fprintf(w, `{"jsonrpc":"2.0","id":%s,"error":{"code":-32005,"message":%s}}`, echo, p0)
			return
		}
		fmt.Fprintf(w, `{"jsonrpc":"2.0","id":%s,"result":%s}`, echo, p0)
	}))
	defer srv.Close()
	rc := rpcbackend.NewRPCClientWithOption(resty.New().SetLogger(quietLog{}).SetBaseURL(srv.URL), rpcbackend.RPCClientOptions{MaxConcurrentRequest: int64(limit)})
	var wg sync.WaitGroup
	var bad int64
	var firstBad atomic.Value
	for c := 0; c < nCallers; c++ {
		wg.Add(1)
		go func(c int) {
			defer wg.Done()
			for j := 0; j < perCaller; j++ {
				tag := fmt.Sprintf(`"c%d-%d"`, c, j)
				orig := fmt.Sprintf(`%d`, c*1000+j)
				if c%2 == 1 {
					// the CallRPC wrapper: the result (or the backend's error) of its own request
					var out string
					wantErr := j%3 == 2
					e := rc.CallRPC(context.Background(), &out, "verif_stress", json.RawMessage(tag), wantErr)
					ok := false
					if wantErr {
						ok = e != nil && e.Code == -32005 && `"`+e.Message+`"` == tag
					} else {
						ok = e == nil && `"`+out+`"` == tag
					}
					if !ok {
						atomic.AddInt64(&bad, 1)
						firstBad.CompareAndSwap(nil, fmt.Sprintf("caller %d CallRPC %d (wantErr=%v): err=%v result=%q", c, j, wantErr, e, out))
					}
					continue
				}
				res, err := rc.SyncRequest(context.Background(), &rpcbackend.RPCRequest{ID: fftypes.JSONAnyPtr(orig), Method: "verif_stress", Params: []*fftypes.JSONAny{fftypes.JSONAnyPtr(tag)}})
				if err != nil || res == nil || res.ID == nil || string(*res.ID) != orig || res.Result == nil || string(*res.Result) != tag {
					atomic.AddInt64(&bad, 1)
					firstBad.CompareAndSwap(nil, fmt.Sprintf("caller %d request %d: err=%v res=%+v", c, j, err, res))
				}
			}
		}(c)
	}
	wg.Wait()
	total := nCallers * perCaller
	{
		// the plain constructor (no limit) and a parameter that cannot be marshalled: an error, no backend request
		rc0 := rpcbackend.NewRPCClient(resty.New().SetLogger(quietLog{}).SetBaseURL(srv.URL))
		var out string
		e1 := rc0.CallRPC(context.Background(), &out, "verif_plain", make(chan int))
		after := atomic.LoadInt64(&plain)
		e2 := rc0.CallRPC(context.Background(), &out, "verif_plain", json.RawMessage(`"plain"`))
		if e1 == nil || after != 0 || e2 != nil || out != "plain" || atomic.LoadInt64(&plain) != 1 {
			*fails = append(*fails, map[string]interface{}{"what": "HTTP CallRPC: an unmarshallable parameter must fail without a backend request, a plain call must return its own result", "err1": fmt.Sprint(e1), "err2": fmt.Sprint(e2), "result": out})
		}
	}
	if bad > 0 {
		*fails = append(*fails, map[string]interface{}{"what": "concurrent SyncRequest returned a reply that is not its own (id or result)", "limit": limit, "callers": nCallers, "bad": bad, "first": firstBad.Load()})
	}
	if limit > 0 && max > int64(limit) {
		*fails = append(*fails, map[string]interface{}{"what": "more requests outstanding at the backend than the configured limit", "limit": limit, "measured": max, "callers": nCallers, "mode": "stress"})
	}
	dups := 0
	for _, n := range ids {
		if n > 1 {
			dups++
		}
	}
	if dups > 0 || len(ids) != total {
		*fails = append(*fails, map[string]interface{}{"what": "backend request ids are not unique", "distinct": len(ids), "requests": total})
	}
	st.Hit(fmt.Sprintf("http-stress:limit=%d:callers=%d:max=%d", limit, nCallers, max))
	st.Evaluations += total
}

// ---------------------------------------------------------------------------------------------
// WebSocket
// ---------------------------------------------------------------------------------------------

type wsFrame struct {
	conn   int
	idRaw  json.RawMessage
	method string
	params []json.RawMessage
}

type wsServer struct {
	srv         *httptest.Server
	accepts     chan int
	frames      chan wsFrame
	mu          sync.Mutex
	conns       []*websocket.Conn
	wmu         sync.Mutex
	barrierSeen chan wsFrame
	hold        chan struct{} // when set: connection attempts wait until it is closed (the connection stays down)
	held        chan struct{} // a connection attempt is waiting at hold
}

func (s *wsServer) setHold(ch chan struct{}) {
	s.mu.Lock()
	s.hold = ch
	s.mu.Unlock()
}

func newWSServer() *wsServer {
	s := &wsServer{accepts: make(chan int, 64), frames: make(chan wsFrame, 1024), held: make(chan struct{}, 64)}
	up := websocket.Upgrader{}
	s.srv = httptest.NewServer(http.HandlerFunc(func(w http.ResponseWriter, r *http.Request) {
		s.mu.Lock()
		hold := s.hold
		s.mu.Unlock()
		if hold != nil {
			s.held <- struct{}{}
			<-hold
		}
		c, err := up.Upgrade(w, r, nil)
		if err != nil {
			return
		}
		s.mu.Lock()
		idx := len(s.conns)
		s.conns = append(s.conns, c)
		s.mu.Unlock()
		s.accepts <- idx
		for {
			_, msg, err := c.ReadMessage()
			if err != nil {
				return
			}
			var rq struct {
				ID     json.RawMessage   `json:"id"`
				Method string            `json:"method"`
				Params []json.RawMessage `json:"params"`
			}
			_ = json.Unmarshal(msg, &rq)
			if rq.Method == "verif_barrier" {
				// answered at once; everything the script sent before is ahead of it on the wire
				v := uint64(0)
				if len(rq.Params) > 0 {
					_ = json.Unmarshal(rq.Params[0], &v)
				}
				s.send(idx, fmt.Sprintf(`{"jsonrpc":"2.0","id":%s,"result":"%s"}`, rq.ID, hexStr(v)))
			}
			s.frames <- wsFrame{conn: idx, idRaw: rq.ID, method: rq.Method, params: rq.Params}
		}
	}))
	return s
}
func (s *wsServer) send(idx int, msg string) {
	s.mu.Lock()
	c := s.conns[idx]
	s.mu.Unlock()
	s.wmu.Lock()
	_ = c.WriteMessage(websocket.TextMessage, []byte(msg))
	s.wmu.Unlock()
}
func (s *wsServer) closeConn(idx int) {
	s.mu.Lock()
	c := s.conns[idx]
	s.mu.Unlock()
	if tc, ok := c.UnderlyingConn().(*net.TCPConn); ok {
		_ = tc.SetLinger(0)
	}
	_ = c.Close()
}

type callRes struct {
	k   int
	err *rpcbackend.RPCError
	raw json.RawMessage
}
type subRes struct {
	s   int
	sub rpcbackend.Subscription
	err *rpcbackend.RPCError
}
type unsubRes struct {
	s   int
	err *rpcbackend.RPCError
}
type notifEv struct {
	s      int
	closed bool
	cur    string
	res    *fftypes.JSONAny
}

type wsDesc struct {
	Kind string   `json:"kind"`
	Ops  []string `json:"ops"`
	Key  string   `json:"key,omitempty"`
}

type wsDriver struct {
	r       *cv.Rand
	st      *cv.Stats
	srv     *wsServer
	rc      rpcbackend.WebSocketRPCClient
	conn    int
	ops     []string
	dops    []string
	callRes chan callRes
	subRes  chan subRes
	unsRes  chan unsubRes
	notifs  chan notifEv
	nextK   int
	nextS   int
	// bookkeeping used only to choose operations and to know how long to wait
	outCalls     map[int]uint64 // waiting CallRPC: handle -> request id
	cancels      map[int]context.CancelFunc
	answered     []uint64       // ids already answered once
	pendSubs     map[int]uint64 // sub handle -> pending eth_subscribe id
	subWaiting   map[int]bool   // Subscribe() not yet returned
	subCancel    map[int]context.CancelFunc
	subObjs      map[int]rpcbackend.Subscription
	uuids        map[string]int // LocalID -> handle
	active       map[int]uint64 // sub handle -> server id it was last confirmed with
	oldSubIDs    []uint64
	staleSubReqs []uint64    // ids of eth_subscribe requests that were unanswered when their connection dropped
	staleCalls   []uint64    // ids of calls that were unanswered when their connection dropped
	unsubbing    map[int]int // sub handle -> call handle of its eth_unsubscribe (if one is outstanding)
	unsubUndec   map[int]bool   // sub handle -> the script answered its eth_unsubscribe with a result that does not decode into a Go bool
	unsubX       map[int]uint64 // sub handle -> server id named by its eth_unsubscribe frame
	unsubbed     map[int]bool
	subCancelled map[int]bool
	maxID        uint64
	failed       string
	closedSubs   sync.Map // sub handle -> its notifications channel was seen closed
	// property oracle evaluated here on the implementation alone (independent of the Coq model): the ownership
	// table of Spec.v.  own: server id -> the subscription it was last confirmed for on the current connection;
	// configured: Subscribe started and neither cancelled nor unsubscribed
	own        map[uint64]int
	ambiguous  map[uint64]bool
	configured map[int]bool
	pause      map[int]chan chan struct{} // per consumer: send a channel to make it stop reading until that channel is closed
	stop       chan struct{}              // closed at the end of the sequence
	oracle     []string                   // violations of the routing clause seen in this sequence
	hangSeen   bool                       // a call that had to return did not
}

func (d *wsDriver) add(coq, desc string) {
	d.ops = append(d.ops, coq)
	d.dops = append(d.dops, desc)
	jlog("%s", desc)
}

// ---- ownership oracle
func (d *wsDriver) ownConfirm(s int, x uint64) {
	if d.configured[s] {
		if o, ok := d.own[x]; ok && o != s {
			// the server handed the id of a live subscription of this connection to another one: ids no longer
			// identify a subscription, the ownership clause says nothing about x (compared with the model only)
			d.ambiguous[x] = true
			d.st.Hit("ws:confirm:id-of-a-live-subscription (ownership oracle off for that id)")
		}
		d.own[x] = s
	}
}
func (d *wsDriver) ownRelease(s int) {
	delete(d.configured, s)
	for x, o := range d.own {
		if o == s {
			delete(d.own, x)
		}
	}
}
func (d *wsDriver) ownDrop() { d.own = map[uint64]int{}; d.ambiguous = map[uint64]bool{} }

// a notification carrying server id x (nil = no usable id) was handled; got = the consumers that received something
func (d *wsDriver) ownCheck(x *uint64, got []notifEv) {
	want := -1
	if x != nil && d.ambiguous[*x] {
		return
	}
	if x != nil {
		if o, ok := d.own[*x]; ok {
			want = o
		}
	}
	xs := "none"
	if x != nil {
		xs = hexStr(*x)
	}
	defer func() {
		if len(d.oracle) > 0 {
			jlog("ORACLE: %s", d.oracle[len(d.oracle)-1])
		}
	}()
	switch {
	case want < 0 && len(got) > 0:
		d.oracle = append(d.oracle, fmt.Sprintf("a notification for server id %s, which no subscription owns on this connection, was delivered to subscription %d", xs, got[0].s))
	case want >= 0 && len(got) == 0:
		d.oracle = append(d.oracle, fmt.Sprintf("a notification for server id %s was delivered to nobody; its current owner is subscription %d", xs, want))
	case want >= 0 && (len(got) != 1 || got[0].s != want):
		d.oracle = append(d.oracle, fmt.Sprintf("a notification for server id %s (owner: subscription %d) was delivered %d times, first to subscription %d", xs, want, len(got), got[0].s))
	}
}

// wait for the next frame the client sends (other than barrier frames)
func (d *wsDriver) nextFrame(timeout time.Duration) (wsFrame, bool) {
	select {
	case f := <-d.srv.frames:
		if id, ok := parseReqID(f.idRaw); ok && id > d.maxID {
			d.maxID = id
		}
		return f, true
	case <-time.After(timeout):
		return wsFrame{}, false
	}
}

func paramInt(f wsFrame, i int) int {
	v := -1
	if len(f.params) > i {
		_ = json.Unmarshal(f.params[i], &v)
	}
	return v
}

// barrier: when it returns the client's receive loop has handled every frame sent before
func (d *wsDriver) barrier() bool {
	for attempt := 0; ; attempt++ {
		k := d.nextK
		d.nextK++
		v := uint64(70000 + k)
		var res interface{}
		done := make(chan *rpcbackend.RPCError, 1)
		go func() { done <- d.rc.CallRPC(context.Background(), &res, "verif_barrier", v) }()
		f, ok := d.nextFrame(longWait)
		if !ok || f.method != "verif_barrier" {
			d.failed = fmt.Sprintf("barrier frame not received (got %+v)", f)
			return false
		}
		id, _ := parseReqID(f.idRaw)
		select {
		case e := <-done:
			if e != nil {
				// Right after a drop the server has accepted the new connection before the client's reconnect hook has
				// run: a barrier call registered in that gap is (correctly) failed by the hook like any call
				// outstanding at the reconnect.  In the model: the call was started before the reconnect began.
				last := -1
				for i := len(d.ops) - 1; i >= 0 && i >= len(d.ops)-64; i-- {
					if strings.HasPrefix(d.ops[i], "WDrop ") {
						last = i
						break
					}
				}
				if attempt < 3 && last >= 0 && strings.Contains(e.Message, "FF22067") {
					call, cdesc := fmt.Sprintf("WCall %d %d", k, id), fmt.Sprintf("barrier call k=%d id=%d started while the client was reconnecting", k, id)
					d.ops = append(d.ops[:last], append([]string{call}, d.ops[last:]...)...)
					d.dops = append(d.dops[:last], append([]string{cdesc}, d.dops[last:]...)...)
					d.add(fmt.Sprintf("WCallRet %d OErrInternal", k), fmt.Sprintf("barrier call k=%d failed by the reconnect: %s", k, e.Message))
					d.st.Hit("ws:barrier:caught-by-the-reconnect-hook")
					continue
				}
				d.failed = "barrier call failed: " + e.Message
				return false
			}
		case <-time.After(longWait):
			d.failed = "barrier call did not return"
			return false
		}
		got := uint64(0)
		if s, ok := res.(string); ok {
			if p := parseHexJSON([]byte(`"` + s + `"`)); p != nil {
				got = *p
			}
		}
		d.add(fmt.Sprintf("WBarrier %d %d %d", k, id, got), fmt.Sprintf("barrier k=%d id=%d", k, id))
		return true
	}
}

func (d *wsDriver) observeCall(cr callRes) string {
	if cr.err != nil {
		c := cr.err.Code
		if c < 0 {
			c = -c
		}
		if c == 32603 {
			return "OErrInternal"
		}
		if c >= 40000 && c < 50000 {
			return fmt.Sprintf("(OErrRpc (Some %d))", c-40000)
		}
		return "(OErrRpc None)"
	}
	return fmt.Sprintf("(OOk %s)", optN(parseHexJSON(cr.raw)))
}

// collect returns of calls / subscribes / unsubscribes; expect tells how many of each must come
func (d *wsDriver) collect(expCalls []int, expSubs []int, expUnsubs []int) {
	waitFor := func(pending func() bool) {
		// what is waited for here has already been handed to the caller's goroutine (a response in its channel, the
		// reconnect error, a cancelled context): only its scheduling remains
		deadline := time.Now().Add(returnWait)
		for pending() && time.Now().Before(deadline) {
			d.drain(200 * time.Microsecond)
		}
	}
	exp := map[int]bool{}
	for _, k := range expCalls {
		exp[k] = true
	}
	waitFor(func() bool {
		for k := range exp {
			if _, still := d.outCalls[k]; still {
				return true
			}
		}
		return false
	})
	for _, k := range expCalls {
		if _, still := d.outCalls[k]; still {
			d.add(fmt.Sprintf("WCallHang %d", k), fmt.Sprintf("call k=%d did not return", k))
			delete(d.outCalls, k)
			d.hangSeen = true // the sequence is a failing one already: it ends here (no further waiting)
		}
	}
	waitFor(func() bool {
		for _, s := range expSubs {
			if d.subWaiting[s] {
				return true
			}
		}
		for _, s := range expUnsubs {
			if _, still := d.unsubbing[s]; still {
				return true
			}
		}
		return false
	})
	d.drain(grace)
}

// drain whatever has returned by now
func (d *wsDriver) drain(wait time.Duration) {
	t := time.After(wait)
	for {
		select {
		case cr := <-d.callRes:
			delete(d.outCalls, cr.k)
			isUnsub := false
			for _, k := range d.unsubbing {
				if k == cr.k {
					isUnsub = true
				}
			}
			if !isUnsub {
				d.add(fmt.Sprintf("WCallRet %d %s", cr.k, d.observeCall(cr)), fmt.Sprintf("call k=%d returned err=%v result=%s", cr.k, cr.err, cr.raw))
			}
		case sr := <-d.subRes:
			delete(d.subWaiting, sr.s)
			code := 0
			switch {
			case sr.sub != nil && sr.err == nil:
				code = 0
			case sr.sub != nil:
				code = 1
			default:
				code = 2
			}
			if sr.sub != nil {
				d.startConsumer(sr.s, sr.sub)
			}
			d.add(fmt.Sprintf("WSubRet %d %d", sr.s, code), fmt.Sprintf("Subscribe s=%d returned code=%d err=%v", sr.s, code, sr.err))
		case ur := <-d.unsRes:
			if k, ok := d.unsubbing[ur.s]; ok {
				delete(d.outCalls, k)
			}
			delete(d.unsubbing, ur.s)
			d.unsubbed[ur.s] = true
			delete(d.active, ur.s)
			delete(d.pendSubs, ur.s)
			// was the notifications channel closed?
			closed := false
			if ur.err == nil {
				closed = d.waitClosed(ur.s)
			} else {
				closed = d.isClosed(ur.s)
			}
			// dec: what the SCRIPT sent (never what the client returned)
			dec := !d.unsubUndec[ur.s]
			d.add(fmt.Sprintf("WUnsubRet %d %s %s %s", ur.s, coqBool(ur.err == nil), coqBool(closed), coqBool(dec)), fmt.Sprintf("Unsubscribe s=%d returned err=%v closed=%v (script's eth_unsubscribe result decodes into bool: %v)", ur.s, ur.err, closed, dec))
			if !dec {
				// referee point 4 / 5(a): Go decodes the eth_unsubscribe result into *bool; a result that does not decode
				// makes Unsubscribe return a ParseError and leave the notifications channel open
				d.st.Hit("ws:unsubscribe:undecodable-result")
				if ur.err == nil {
					d.oracle = append(d.oracle, fmt.Sprintf("Unsubscribe of subscription %d returned nil although the eth_unsubscribe result does not decode into a bool", ur.s))
				}
			}
		case <-t:
			return
		}
	}
}

func (d *wsDriver) isClosed(s int) bool {
	_, ok := d.closedSubs.Load(s)
	return ok
}
func (d *wsDriver) waitClosed(s int) bool {
	deadline := time.Now().Add(500 * time.Millisecond)
	for time.Now().Before(deadline) {
		if d.isClosed(s) {
			return true
		}
		time.Sleep(100 * time.Microsecond)
	}
	return false
}

func (d *wsDriver) startConsumer(s int, sub rpcbackend.Subscription) {
	if _, dup := d.subObjs[s]; dup {
		return
	}
	d.subObjs[s] = sub
	ch := sub.Notifications()
	pause := make(chan chan struct{})
	d.pause[s] = pause
	go func() {
		for {
			select {
			case n, ok := <-ch:
				if !ok {
					d.closedSubs.Store(s, true)
					return
				}
				d.notifs <- notifEv{s: s, cur: n.CurrentSubID, res: n.Result}
			case resume := <-pause:
				// (unbuffered: once the driver's send has completed this consumer is not reading its notifications)
				select {
				case <-resume:
				case <-d.stop:
					return
				}
			case <-d.stop:
				return
			}
		}
	}()
}

func (d *wsDriver) takeNotifs(expect int) (string, []notifEv) {
	var got []string
	var evs []notifEv
	// the barrier has returned, so the receive loop has already handed the notification over; what remains is the
	// consumer goroutine being scheduled
	deadline := time.After(notifWait)
	for len(got) < expect {
		select {
		case n := <-d.notifs:
			got = append(got, d.notifCoq(n))
			evs = append(evs, n)
		case <-deadline:
			expect = 0
		}
	}
	t := time.After(grace)
	for {
		select {
		case n := <-d.notifs:
			got = append(got, d.notifCoq(n))
			evs = append(evs, n)
		case <-t:
			return "[" + strings.Join(got, "; ") + "]", evs
		}
	}
}
func (d *wsDriver) notifCoq(n notifEv) string {
	cur := parseHexJSON([]byte(`"` + n.cur + `"`))
	tag := uint64(999999)
	if n.res != nil {
		if p := parseHexJSON([]byte(*n.res)); p != nil {
			tag = *p
		}
	}
	return fmt.Sprintf("(%d%%nat, %s, %d)", n.s, optN(cur), tag)
}

// notif: the frame is a notification; x = its usable server id, if any
func (d *wsDriver) sendFrame(coq, desc, json string, notif bool, x *uint64) {
	expectNotif := 0
	if notif && x != nil {
		if _, ok := d.own[*x]; ok {
			expectNotif = 1
		}
	}
	jlog("server sends %s", json)
	d.srv.send(d.conn, json)
	if !d.barrier() {
		return
	}
	// the barrier was appended after the frame was handled; put the frame op before it
	b := d.ops[len(d.ops)-1]
	bd := d.dops[len(d.dops)-1]
	d.ops = d.ops[:len(d.ops)-1]
	d.dops = d.dops[:len(d.dops)-1]
	ns, evs := d.takeNotifs(expectNotif)
	if notif {
		d.ownCheck(x, evs)
	} else if len(evs) > 0 {
		d.oracle = append(d.oracle, fmt.Sprintf("a reply frame made subscription %d receive a notification", evs[0].s))
	}
	d.add(fmt.Sprintf("WFrame %s %s", coq, ns), desc+" -> notifications "+ns)
	d.add(b, bd)
}

// UnsubscribeAll at the end of a sequence: every configured subscription is unsubscribed (one after the other, in
// map order); those with a server id send eth_unsubscribe, which the script answers.  Afterwards nothing is
// configured, every notifications channel is closed and no id is owned by anybody.
func (d *wsDriver) unsubscribeAll(ctx context.Context) {
	if len(d.subWaiting) > 0 || len(d.unsubbing) > 0 {
		return
	}
	todo := map[int]bool{}
	byID := map[uint64]int{}
	for s := range d.configured {
		if _, ok := d.subObjs[s]; !ok || d.unsubbed[s] {
			return
		}
		todo[s] = true
		if x, ok := d.active[s]; ok {
			if _, dup := byID[x]; dup {
				return // two subscriptions confirmed with the same server id: the frames do not tell them apart
			}
			byID[x] = s
		}
	}
	if len(todo) == 0 {
		return
	}
	d.st.Hit(fmt.Sprintf("ws:unsubscribe-all:subs=%d:active=%d", min(len(todo), 3), min(len(byID), 3)))
	jlog("UnsubscribeAll called")
	done := make(chan *rpcbackend.RPCError, 1)
	go func() { done <- d.rc.UnsubscribeAll(ctx) }()
	finish := func(s int, withFrame bool) {
		closed := d.waitClosed(s)
		d.add(fmt.Sprintf("WUnsubRet %d true %s true", s, coqBool(closed)), fmt.Sprintf("UnsubscribeAll: s=%d done closed=%v", s, closed))
		d.unsubbed[s] = true
		delete(d.active, s)
		delete(d.pendSubs, s)
		delete(todo, s)
		d.ownRelease(s)
	}
	for {
		select {
		case f := <-d.srv.frames:
			id, _ := parseReqID(f.idRaw)
			if id > d.maxID {
				d.maxID = id
			}
			var xs string
			if len(f.params) > 0 {
				_ = json.Unmarshal(f.params[0], &xs)
			}
			x := parseHexJSON([]byte(`"` + xs + `"`))
			s, known := -1, false
			if x != nil {
				s, known = byID[*x]
			}
			if f.method != "eth_unsubscribe" || !known || !todo[s] {
				d.failed = fmt.Sprintf("UnsubscribeAll: unexpected frame %s %s", f.method, xs)
				return
			}
			k := d.nextK
			d.nextK++
			d.add(fmt.Sprintf("WUnsub %d %d (Some (%d, %d))", s, k, id, *x), fmt.Sprintf("UnsubscribeAll: s=%d eth_unsubscribe id=%s sub=%s", s, f.idRaw, xs))
			// every form that decodes into a Go bool (true / false / null / no result at all)
			frame := fmt.Sprintf(`{"jsonrpc":"2.0","id":%s%s}`, fmtReqID(id), []string{`,"result":true`, `,"result":false`, `,"result":null`, ``}[int(id)%4])
			jlog("server sends %s", frame)
			d.srv.send(d.conn, frame)
			d.add(fmt.Sprintf("WFrame (FReply (Some %d) false None) []", id), "reply to eth_unsubscribe "+frame)
			finish(s, true)
		case e := <-done:
			// the ones without a server id made no frame
			rest := []int{}
			for s := range todo {
				rest = append(rest, s)
			}
			sort.Ints(rest)
			for _, s := range rest {
				if _, had := d.active[s]; had {
					d.oracle = append(d.oracle, fmt.Sprintf("UnsubscribeAll returned without an eth_unsubscribe for subscription %d, which owns a server id", s))
				}
				k := d.nextK
				d.nextK++
				d.add(fmt.Sprintf("WUnsub %d %d None", s, k), fmt.Sprintf("UnsubscribeAll: s=%d (no frame)", s))
				finish(s, false)
			}
			if e != nil {
				d.oracle = append(d.oracle, "UnsubscribeAll returned an error although every eth_unsubscribe was answered: "+e.Message)
			}
			if n := len(d.rc.Subscriptions()); n != 0 {
				d.oracle = append(d.oracle, fmt.Sprintf("%d subscriptions still configured after UnsubscribeAll", n))
			}
			return
		case <-time.After(longWait):
			d.failed = "UnsubscribeAll neither sent a frame nor returned"
			return
		}
	}
}

func (d *wsDriver) subsCheck() {
	subs := d.rc.Subscriptions()
	hs := []int{}
	for _, s := range subs {
		h, ok := d.uuids[s.LocalID().String()]
		if !ok {
			h = 900000
		}
		hs = append(hs, h)
	}
	sort.Ints(hs)
	strs := make([]string, len(hs))
	for i, h := range hs {
		strs[i] = strconv.Itoa(h) + "%nat"
	}
	d.add(fmt.Sprintf("WSubs [%s]", strings.Join(strs, "; ")), "Subscriptions() = "+strings.Join(strs, ","))
}

func sortedKeys(m map[int]uint64) []int {
	ks := []int{}
	for k := range m {
		ks = append(ks, k)
	}
	sort.Ints(ks)
	return ks
}

type wsHint struct {
	confirmSub int    // >= 0: the reply confirms the pending eth_subscribe of this subscription
	resultID   uint64 // != 0: ... with this server id
	replyCall  int    // >= 0: the reply answers this call (success)
	replyStale bool   // the reply answers an eth_subscribe that was still pending when an earlier connection dropped
	notifID    uint64 // != 0: the notification carries this server id
	unsubSub   int    // >= 0: unsubscribe this subscription
}

var noHint = wsHint{confirmSub: -1, replyCall: -1, unsubSub: -1}

// one step of a directed scenario: operation class (as drawn by the random script), hint, applicable?
type planStep func() (int, wsHint, bool)

func runWSCase(r *cv.Rand, st *cv.Stats, nOps int, profile int) (string, wsDesc, string, []string) {
	srv := newWSServer()
	defer srv.srv.Close()
	ctx, cancelAll := context.WithCancel(context.Background())
	defer cancelAll()
	rc := rpcbackend.NewWSRPCClient(&wsclient.WSConfig{HTTPURL: srv.srv.URL, InitialDelay: 500 * time.Microsecond, MaximumDelay: 2 * time.Millisecond})
	if err := rc.Connect(ctx); err != nil {
		return "", wsDesc{}, "connect: " + err.Error(), nil
	}
	defer rc.Close()
	d := &wsDriver{r: r, st: st, srv: srv, rc: rc,
		callRes: make(chan callRes, 256), subRes: make(chan subRes, 64), unsRes: make(chan unsubRes, 64), notifs: make(chan notifEv, 256),
		outCalls: map[int]uint64{}, cancels: map[int]context.CancelFunc{}, pendSubs: map[int]uint64{}, subWaiting: map[int]bool{},
		subCancel: map[int]context.CancelFunc{}, subObjs: map[int]rpcbackend.Subscription{}, uuids: map[string]int{},
		active: map[int]uint64{}, unsubbing: map[int]int{}, unsubUndec: map[int]bool{}, unsubX: map[int]uint64{}, unsubbed: map[int]bool{}, subCancelled: map[int]bool{},
		own: map[uint64]int{}, ambiguous: map[uint64]bool{}, configured: map[int]bool{}, pause: map[int]chan chan struct{}{}, stop: make(chan struct{})}
	defer close(d.stop)
	select {
	case d.conn = <-srv.accepts:
	case <-time.After(longWait):
		return "", wsDesc{}, "no accept", nil
	}
	nextSubID := uint64(1)

	// ---- directed scenarios (a third of the sequences start with one; the random script continues afterwards)
	idOf := func(s int) uint64 {
		for x, o := range d.own {
			if o == s {
				return x
			}
		}
		return 0
	}
	old := map[int]uint64{}
	rememberAs := func(key, s int) planStep {
		return func() (int, wsHint, bool) { old[key] = idOf(s); return 0, noHint, false }
	}
	remember := func(s int) planStep { return rememberAs(s, s) }
	stSub := func() (int, wsHint, bool) { return 60, noHint, true }
	stDrop := func() (int, wsHint, bool) { return 80, noHint, true }
	stConfirm := func(s int, id func() uint64) planStep {
		return func() (int, wsHint, bool) {
			h := noHint
			h.confirmSub, h.resultID = s, id()
			_, ok := d.pendSubs[s]
			return 20, h, ok
		}
	}
	stNotif := func(id func() uint64) planStep {
		return func() (int, wsHint, bool) {
			h := noHint
			h.notifID = id()
			return 50, h, h.notifID != 0
		}
	}
	stUnsub := func(s int) planStep {
		return func() (int, wsHint, bool) {
			h := noHint
			h.unsubSub = s
			_, have := d.subObjs[s]
			return 70, h, have && !d.unsubbed[s]
		}
	}
	stReplyStale := func() (int, wsHint, bool) {
		h := noHint
		h.replyStale = true
		return 20, h, len(d.staleSubReqs) > 0
	}
	stAnswerUnsub := func(s int) planStep {
		return func() (int, wsHint, bool) {
			h := noHint
			k, ok := d.unsubbing[s]
			h.replyCall = k
			return 20, h, ok
		}
	}
	fresh := func() uint64 { return 0 }
	oldOf := func(s int) func() uint64 { return func() uint64 { return old[s] } }
	curOf := func(s int) func() uint64 { return func() uint64 { return idOf(s) } }
	var plan []planStep
	switch profile % 6 {
	case 1:
		// after a reconnect the server hands the id subscription 0 had before to subscription 1, and 0 is
		// unsubscribed before it is confirmed again: the id now belongs to 1
		plan = []planStep{stSub, stConfirm(0, fresh), stSub, stConfirm(1, fresh), stNotif(curOf(0)), remember(0), remember(1), stDrop,
			stConfirm(1, oldOf(0)), stNotif(oldOf(0)), stUnsub(0), stNotif(oldOf(0)), stNotif(oldOf(1)), stConfirm(0, fresh), stNotif(oldOf(0))}
		st.Hit("ws:plan:id-reused-by-other-sub-after-reconnect")
	case 3:
		// ids of the old connection after a reconnect, before and after the re-confirmation and after unsubscribing
		plan = []planStep{stSub, stConfirm(0, fresh), stNotif(curOf(0)), remember(0), stSub, stDrop, stNotif(oldOf(0)),
			stReplyStale, stNotif(oldOf(20)), stConfirm(0, fresh), stNotif(oldOf(0)), stNotif(curOf(0)), rememberAs(10, 0), stUnsub(0), stNotif(oldOf(10)), stNotif(oldOf(0)), stAnswerUnsub(0), stNotif(oldOf(10)), stNotif(oldOf(0))}
		st.Hit("ws:plan:old-connection-ids-after-reconnect")
	case 5:
		// two reconnects in a row, the second while the re-request of the first is unconfirmed; unsubscribe, then
		// the confirmations and notifications for every id the subscription ever had
		plan = []planStep{stSub, stConfirm(0, fresh), remember(0), stDrop, stDrop, stReplyStale, stNotif(oldOf(20)), stConfirm(0, fresh), stNotif(oldOf(20)), stNotif(oldOf(0)), stNotif(curOf(0)),
			stSub, stDrop, stConfirm(1, oldOf(0)), stNotif(oldOf(0)), stUnsub(1), stAnswerUnsub(1), stNotif(oldOf(0)), stConfirm(0, oldOf(0)), stNotif(oldOf(0))}
		st.Hit("ws:plan:repeated-reconnects")
	}

	nOps += len(plan)
	// a violation of the routing oracle ends the sequence: it is reported with the history up to here (going on
	// could make a broken client send on a closed channel, which ends the process)
	for step := 0; step < nOps && d.failed == "" && len(d.oracle) == 0 && !d.hangSeen; step++ {
		c := r.Intn(100)
		h := noHint
		for len(plan) > 0 {
			ps := plan[0]
			plan = plan[1:]
			if pc, ph, ok := ps(); ok {
				c, h = pc, ph
				break
			}
		}
		switch {
		case c < 18: // ---- new call
			if r.Intn(12) == 0 {
				// a parameter that cannot be marshalled: an error at once, nothing registered, no id consumed (the
				// next frame's id shows it)
				e := rc.CallRPC(ctx, nil, "verif_call", make(chan int))
				if e == nil {
					d.oracle = append(d.oracle, "CallRPC with an unmarshallable parameter returned no error")
				}
				select {
				case f := <-srv.frames:
					d.oracle = append(d.oracle, fmt.Sprintf("CallRPC with an unmarshallable parameter sent a frame (%s)", f.method))
				default:
				}
				jlog("CallRPC with an unmarshallable parameter: err=%v", e)
				st.Hit("ws:call:bad-param")
				continue
			}
			k := d.nextK
			d.nextK++
			cctx, cancel := context.WithCancel(ctx)
			d.cancels[k] = cancel
			go func() {
				var res json.RawMessage
				var out interface{}
				e := rc.CallRPC(cctx, &out, "verif_call", k)
				if e == nil {
					res, _ = json.Marshal(out)
				}
				d.callRes <- callRes{k: k, err: e, raw: res}
			}()
			f, ok := d.nextFrame(longWait)
			if !ok || f.method != "verif_call" || paramInt(f, 0) != k {
				d.failed = fmt.Sprintf("call frame not received (%+v)", f)
				break
			}
			id, _ := parseReqID(f.idRaw)
			d.outCalls[k] = id
			d.add(fmt.Sprintf("WCall %d %d", k, id), fmt.Sprintf("CallRPC k=%d frame id=%s", k, f.idRaw))
			st.Hit("ws:call")
		case c < 44: // ---- reply frame
			// choose the id
			var fidCoq, idJSON string
			var target string
			tk, ts := -1, -1
			pick := r.Intn(20)
			calls := sortedKeys(d.outCalls)
			pend := sortedKeys(d.pendSubs)
			unsubCalls := []int{}
			for _, k := range d.unsubbing {
				unsubCalls = append(unsubCalls, k)
			}
			sort.Ints(unsubCalls)
			if _, ok := d.pendSubs[h.confirmSub]; ok && h.confirmSub >= 0 {
				pick = 100
			}
			if _, ok := d.outCalls[h.replyCall]; ok && h.replyCall >= 0 {
				pick = 101
			}
			if h.replyStale && len(d.staleSubReqs) > 0 {
				pick = 102
			}
			staleConfirm := false
			switch {
			case pick == 102 || (pick >= 14 && pick < 16 && len(d.staleSubReqs) > 0 && r.Bool()):
				// a late answer to an eth_subscribe of an earlier connection: must have no effect at all
				id := d.staleSubReqs[len(d.staleSubReqs)-1-r.Intn(min(len(d.staleSubReqs), 3))]
				fidCoq, idJSON, target = fmt.Sprintf("(Some %d)", id), fmtReqID(id), "stale-subscribe-request"
				staleConfirm = true
			case pick >= 16 && pick < 18 && len(d.staleCalls) > 0 && r.Bool():
				id := d.staleCalls[r.Intn(len(d.staleCalls))]
				fidCoq, idJSON, target = fmt.Sprintf("(Some %d)", id), fmtReqID(id), "stale-call"
			case pick == 100:
				ts = h.confirmSub
				id := d.pendSubs[ts]
				fidCoq, idJSON, target = fmt.Sprintf("(Some %d)", id), fmtReqID(id), "confirm"
			case pick == 101:
				tk = h.replyCall
				id := d.outCalls[tk]
				fidCoq, idJSON, target = fmt.Sprintf("(Some %d)", id), fmtReqID(id), "call"
			case pick < 9 && len(calls) > 0:
				tk = calls[r.Intn(len(calls))]
				id := d.outCalls[tk]
				fidCoq, idJSON, target = fmt.Sprintf("(Some %d)", id), fmtReqID(id), "call"
			case pick < 14 && len(pend) > 0:
				ts = pend[r.Intn(len(pend))]
				id := d.pendSubs[ts]
				fidCoq, idJSON, target = fmt.Sprintf("(Some %d)", id), fmtReqID(id), "confirm"
			case pick < 16 && len(d.answered) > 0:
				id := d.answered[r.Intn(len(d.answered))]
				fidCoq, idJSON, target = fmt.Sprintf("(Some %d)", id), fmtReqID(id), "duplicate"
			case pick < 18:
				// never an id the client is about to allocate (a reply cannot precede its request)
				id := d.maxID + uint64(1000+r.Intn(3000))
				fidCoq, idJSON, target = fmt.Sprintf("(Some %d)", id), fmtReqID(id), "unknown"
			default:
				anyID := uint64(1)
				if len(calls) > 0 {
					anyID = d.outCalls[calls[0]]
				}
				forms := []string{strconv.FormatUint(anyID, 10), fmt.Sprintf(`"%d"`, anyID), "null", `"abc"`, fmt.Sprintf(`"%010d"`, anyID), `{"a":1}`, fmt.Sprintf(`" %09d"`, anyID)}
				idJSON = forms[r.Intn(len(forms))]
				if idJSON == fmtReqID(anyID) {
					idJSON = "null"
				}
				fidCoq, target = "None", "malformed-id"
			}
			st.Hit("ws:reply:" + target)
			iserr := r.Intn(6) == 0 && pick < 100
			// payload
			var resCoq, body string
			if iserr {
				code := uint64(1 + r.Intn(9000))
				if r.Intn(8) == 0 {
					// error object with code 0: not an error for the client
					iserr = false
					resCoq = "None"
					body = `"error":{"code":0,"message":"zero"}`
				} else {
					resCoq = fmt.Sprintf("(Some %d)", code)
					body = fmt.Sprintf(`"error":{"code":-%d,"message":"boom"}`, 40000+code)
				}
			} else {
				pv := r.Intn(12)
				if pick >= 100 {
					pv = 0
				}
				switch {
				case pv < 9:
					v := uint64(100000 + step*16 + r.Intn(16))
					if target == "confirm" || staleConfirm || r.Intn(4) == 0 {
						// a server subscription id: usually fresh, sometimes one seen before
						if h.resultID != 0 {
							v = h.resultID
							st.Hit("ws:confirm:reused-server-id")
						} else if len(d.oldSubIDs) > 0 && r.Intn(5) == 0 && pick < 100 {
							v = d.oldSubIDs[r.Intn(len(d.oldSubIDs))]
							st.Hit("ws:confirm:reused-server-id")
						} else {
							v = nextSubID
							nextSubID++
						}
						if staleConfirm {
							// notifications with this id are tried later (old-or-active-id); nobody owns it
							d.oldSubIDs = append(d.oldSubIDs, v)
							old[20] = v
						}
					}
					resCoq, body = fmt.Sprintf("(Some %d)", v), fmt.Sprintf(`"result":"%s"`, hexStr(v))
				case pv < 10:
					resCoq, body = "None", `"result":""`
				case pv < 11:
					resCoq, body = "None", `"result":12345`
				default:
					resCoq, body = "None", `"jsonrpc":"2.0"`
				}
			}
			if tk >= 0 && !iserr {
				for _, uk := range d.unsubbing {
					if uk == tk {
						// Unsubscribe decodes the result into a Go bool (waitResponse): true / false / null / absent decode,
						// anything else is a ParseError returned by Unsubscribe, which then does not close the channel.
						// The model's frame alphabet only knows "non-empty string" (Some v) / other (None): whether a None
						// result decodes is the environment's choice carried by WUnsubRet's last field.
						undec := false
						switch uv := r.Intn(12); {
						case uv < 4:
							resCoq, body = "None", []string{`"result":true`, `"result":false`}[r.Intn(2)]
						case uv < 5:
							resCoq, body = "None", `"result":null`
						case uv < 6:
							resCoq, body = "None", `"jsonrpc":"2.0"`
						case uv < 9:
							v := uint64(700000 + step*16 + r.Intn(16))
							resCoq, body, undec = fmt.Sprintf("(Some %d)", v), fmt.Sprintf(`"result":"%s"`, hexStr(v)), true
						default:
							resCoq, body, undec = "None", []string{`"result":""`, `"result":12345`, `"result":{"ok":true}`, `"result":[true]`, `"result":1`, `"result":0`}[r.Intn(6)], true
						}
						for us, uk2 := range d.unsubbing {
							if uk2 == tk {
								d.unsubUndec[us] = undec
							}
						}
					}
				}
			}
			frame := fmt.Sprintf(`{"id":%s,%s}`, idJSON, body)
			if r.Bool() {
				frame = fmt.Sprintf(`{"jsonrpc":"2.0",%s,"id":%s}`, body, idJSON)
			}
			var expC, expS, expU []int
			if tk >= 0 {
				expC = []int{tk}
				d.answered = append(d.answered, d.outCalls[tk])
				for s, k := range d.unsubbing {
					if k == tk {
						expU = []int{s}
						expC = nil
					}
				}
			}
			if ts >= 0 {
				d.answered = append(d.answered, d.pendSubs[ts])
				delete(d.pendSubs, ts)
				if d.subWaiting[ts] {
					expS = []int{ts}
				}
				if !iserr && strings.HasPrefix(resCoq, "(Some") && !d.unsubbed[ts] && !d.subCancelled[ts] {
					var v uint64
					fmt.Sscanf(resCoq, "(Some %d)", &v)
					d.active[ts] = v
					d.oldSubIDs = append(d.oldSubIDs, v)
				}
				if !iserr && strings.HasPrefix(resCoq, "(Some") {
					var v uint64
					fmt.Sscanf(resCoq, "(Some %d)", &v)
					d.ownConfirm(ts, v)
				}
			}
			d.sendFrame(fmt.Sprintf("(FReply %s %s %s)", fidCoq, coqBool(iserr), resCoq), "reply "+target+" "+frame, frame, false, nil)
			d.collect(expC, expS, expU)
			for _, us := range expU {
				// directed: after an Unsubscribe that ended in the ParseError (channel left open) a notification for the
				// server id it named must reach nobody (clause "to none after it is unsubscribed": the routing entry went
				// with removeSubscription, before the eth_unsubscribe was even sent) - ownCheck decides
				if x, ok := d.unsubX[us]; ok && d.unsubUndec[us] && d.failed == "" && !d.hangSeen {
					x := x
					tag := uint64(400000 + step)
					nf := fmt.Sprintf(`{"jsonrpc":"2.0","method":"eth_subscription","params":{"subscription":"%s","result":"%s"}}`, hexStr(x), hexStr(tag))
					d.sendFrame(fmt.Sprintf("(FNotif (Some %d) %d)", x, tag), "notification after a failed (undecodable result) Unsubscribe "+nf, nf, true, &x)
					st.Hit("ws:notif:after-undecodable-unsubscribe")
				}
			}
		case c < 58: // ---- notification
			var xCoq, sub string
			expect := 0
			act := sortedKeys(d.active)
			pick := r.Intn(10)
			var xp *uint64
			switch {
			case h.notifID != 0:
				x := h.notifID
				xCoq, sub = fmt.Sprintf("(Some %d)", x), fmt.Sprintf(`"%s"`, hexStr(x))
				xp = &x
				st.Hit("ws:notif:planned")
			case pick < 6 && len(act) > 0:
				s := act[r.Intn(len(act))]
				x := d.active[s]
				xCoq, sub = fmt.Sprintf("(Some %d)", x), fmt.Sprintf(`"%s"`, hexStr(x))
				xp = &x
				expect = 1
				st.Hit("ws:notif:active")
			case pick < 8 && len(d.oldSubIDs) > 0:
				x := d.oldSubIDs[r.Intn(len(d.oldSubIDs))]
				xCoq, sub = fmt.Sprintf("(Some %d)", x), fmt.Sprintf(`"%s"`, hexStr(x))
				xp = &x
				for _, ax := range d.active {
					if ax == x {
						expect = 1
					}
				}
				st.Hit("ws:notif:old-or-active-id")
			case pick < 9:
				x := uint64(500000 + r.Intn(100))
				xCoq, sub = fmt.Sprintf("(Some %d)", x), fmt.Sprintf(`"%s"`, hexStr(x))
				xp = &x
				st.Hit("ws:notif:unknown-id")
			default:
				xCoq, sub = "None", []string{`""`, `null`, `17`}[r.Intn(3)]
				st.Hit("ws:notif:no-id")
			}
			tag := uint64(300000 + step)
			frame := fmt.Sprintf(`{"jsonrpc":"2.0","method":"eth_subscription","params":{"subscription":%s,"result":"%s"}}`, sub, hexStr(tag))
			if xCoq == "None" && r.Intn(3) == 0 {
				frame = `{"jsonrpc":"2.0","method":"eth_subscription"}`
			}
			d.sendFrame(fmt.Sprintf("(FNotif %s %d)", xCoq, tag), "notification "+frame, frame, true, xp)
			_ = expect
		case c < 68: // ---- subscribe
			if len(d.subObjs)+len(d.subWaiting) >= 6 {
				continue
			}
			if r.Intn(12) == 0 {
				// a parameter that cannot be marshalled: (nil, error) at once, nothing stays configured, no id consumed
				nBefore := len(rc.Subscriptions())
				sub, e := rc.Subscribe(ctx, "verif", make(chan int))
				if sub != nil || e == nil || len(rc.Subscriptions()) != nBefore {
					d.oracle = append(d.oracle, "Subscribe with an unmarshallable parameter did not fail cleanly")
				}
				select {
				case f := <-srv.frames:
					d.oracle = append(d.oracle, fmt.Sprintf("Subscribe with an unmarshallable parameter sent a frame (%s)", f.method))
				default:
				}
				jlog("Subscribe with an unmarshallable parameter: err=%v", e)
				st.Hit("ws:subscribe:bad-param")
				if sub == nil && e != nil {
					// in the model: addConfiguredSub, buildRequest fails (ESubBuildFail: before addInflightSub, no id
					// consumed - the next request's id shows it), removeConfiguredSub, (nil, err)
					bs := d.nextS
					d.nextS++
					d.add(fmt.Sprintf("WSubBuildFail %d 2", bs), fmt.Sprintf("Subscribe s=%d with an unmarshallable parameter returned (nil, err)", bs))
				}
				continue
			}
			s := d.nextS
			d.nextS++
			sctx, cancel := context.WithCancel(ctx)
			d.subCancel[s] = cancel
			before := map[string]bool{}
			for _, x := range rc.Subscriptions() {
				before[x.LocalID().String()] = true
			}
			d.subWaiting[s] = true
			go func() {
				sub, e := rc.Subscribe(sctx, "verif", s)
				d.subRes <- subRes{s: s, sub: sub, err: e}
			}()
			f, ok := d.nextFrame(longWait)
			if !ok || f.method != "eth_subscribe" || paramInt(f, 1) != s {
				d.failed = fmt.Sprintf("subscribe frame not received (%+v)", f)
				break
			}
			id, _ := parseReqID(f.idRaw)
			d.pendSubs[s] = id
			d.configured[s] = true
			for _, x := range rc.Subscriptions() {
				if !before[x.LocalID().String()] {
					d.uuids[x.LocalID().String()] = s
					// the handle for reading its notifications is only available when Subscribe returns
				}
			}
			d.add(fmt.Sprintf("WSub %d %d", s, id), fmt.Sprintf("Subscribe s=%d frame id=%s", s, f.idRaw))
			st.Hit("ws:subscribe")
		case c < 76: // ---- unsubscribe
			cands := []int{}
			for s := range d.subObjs {
				if !d.unsubbed[s] {
					if _, busy := d.unsubbing[s]; !busy {
						cands = append(cands, s)
					}
				}
			}
			if len(cands) == 0 {
				continue
			}
			sort.Ints(cands)
			s := cands[r.Intn(len(cands))]
			for _, cs := range cands {
				if cs == h.unsubSub {
					s = cs
				}
			}
			k := d.nextK
			d.nextK++
			d.unsubbing[s] = k
			sub := d.subObjs[s]
			// sometimes: the consumer is not reading when a notification for s arrives, so the receive loop blocks at the
			// hand-over; the Unsubscribe must release it (the notification is then delivered to nobody)
			var resume chan struct{}
			blockedX, blockedTag := idOf(s), uint64(300000+step)
			if blockedX != 0 && r.Intn(3) == 0 {
				resume = make(chan struct{})
				select {
				case d.pause[s] <- resume:
					frame := fmt.Sprintf(`{"jsonrpc":"2.0","method":"eth_subscription","params":{"subscription":"%s","result":"%s"}}`, hexStr(blockedX), hexStr(blockedTag))
					jlog("consumer of s=%d stops reading; server sends %s", s, frame)
					srv.send(d.conn, frame)
					time.Sleep(2 * time.Millisecond)
					st.Hit("ws:unsubscribe:while-receive-loop-blocked-on-its-notification")
				case <-time.After(longWait):
					close(resume)
					resume = nil
				}
			}
			go func() {
				e := sub.Unsubscribe(ctx)
				d.unsRes <- unsubRes{s: s, err: e}
			}()
			jlog("Unsubscribe s=%d called", s)
			// either an eth_unsubscribe frame appears, or it returns directly
			select {
			case f := <-srv.frames:
				d.ownRelease(s)
				id, _ := parseReqID(f.idRaw)
				if id > d.maxID {
					d.maxID = id
				}
				if f.method != "eth_unsubscribe" {
					d.failed = fmt.Sprintf("unexpected frame during unsubscribe: %+v", f)
					break
				}
				var xs string
				if len(f.params) > 0 {
					_ = json.Unmarshal(f.params[0], &xs)
				}
				x := parseHexJSON([]byte(`"` + xs + `"`))
				xv := uint64(999999)
				if x != nil {
					xv = *x
				}
				d.outCalls[k] = id
				d.unsubX[s] = xv
				d.add(fmt.Sprintf("WUnsub %d %d (Some (%d, %d))", s, k, id, xv), fmt.Sprintf("Unsubscribe s=%d eth_unsubscribe id=%s sub=%s", s, f.idRaw, xs))
				delete(d.active, s)
				st.Hit("ws:unsubscribe:active")
				if resume != nil {
					// in the model: the equivalent order Unsubscribe ; notification (dropped: s owns nothing any more)
					if d.barrier() {
						b, bd := d.ops[len(d.ops)-1], d.dops[len(d.dops)-1]
						d.ops, d.dops = d.ops[:len(d.ops)-1], d.dops[:len(d.dops)-1]
						ns, evs := d.takeNotifs(0)
						if len(evs) > 0 {
							d.oracle = append(d.oracle, fmt.Sprintf("a notification that could not be handed to subscription %d before it was unsubscribed reached subscription %d afterwards", s, evs[0].s))
						}
						d.add(fmt.Sprintf("WFrame (FNotif (Some %d) %d) %s", blockedX, blockedTag, ns), "notification for the subscription being unsubscribed -> notifications "+ns)
						d.add(b, bd)
					}
				}
			case ur := <-d.unsRes:
				d.ownRelease(s)
				d.add(fmt.Sprintf("WUnsub %d %d None", s, k), fmt.Sprintf("Unsubscribe s=%d (no frame)", s))
				d.unsRes <- ur
				d.drain(grace)
				st.Hit("ws:unsubscribe:inactive")
			case <-time.After(longWait):
				d.failed = "unsubscribe neither sent a frame nor returned"
			}
			if resume != nil {
				close(resume)
			}
		case c < 84: // ---- drop the connection
			nConf := len(rc.Subscriptions())
			waitingCalls := sortedKeys(d.outCalls)
			jlog("server closes the connection")
			if r.Intn(3) == 0 {
				// the connection stays down for a while: calls made with an already cancelled context fail in
				// wsclient.Send (registered, id allocated, nothing sent)
				gate := make(chan struct{})
				srv.setHold(gate)
				srv.closeConn(d.conn)
				select {
				case <-srv.held:
				case <-time.After(longWait):
					d.failed = "client did not try to reconnect"
				}
				dead, kill := context.WithCancel(ctx)
				kill()
				for n := r.Intn(3); n > 0 && d.failed == ""; n-- {
					if r.Bool() {
						k := d.nextK
						d.nextK++
						var out interface{}
						e := rc.CallRPC(dead, &out, "verif_call", k)
						raw, _ := json.Marshal(out)
						d.add(fmt.Sprintf("WCallSendFail %d %s", k, d.observeCall(callRes{k: k, err: e, raw: raw})), fmt.Sprintf("CallRPC k=%d with a cancelled context while the connection is down: err=%v", k, e))
						st.Hit("ws:down:call-send-fails")
					} else {
						s := d.nextS
						d.nextS++
						sub, e := rc.Subscribe(dead, "verif", s)
						code := 2
						if sub != nil && e == nil {
							code = 0
						} else if sub != nil {
							code = 1
						}
						d.add(fmt.Sprintf("WSubSendFail %d %d", s, code), fmt.Sprintf("Subscribe s=%d with a cancelled context while the connection is down: code=%d err=%v", s, code, e))
						st.Hit("ws:down:subscribe-send-fails")
					}
				}
				srv.setHold(nil)
				close(gate)
			} else {
				srv.closeConn(d.conn)
			}
			d.ownDrop()
			for _, s := range sortedKeys(d.pendSubs) {
				d.staleSubReqs = append(d.staleSubReqs, d.pendSubs[s])
			}
			for _, k := range waitingCalls {
				d.staleCalls = append(d.staleCalls, d.outCalls[k])
			}
			select {
			case d.conn = <-srv.accepts:
			case <-time.After(longWait):
				d.failed = "client did not reconnect"
			}
			if d.failed != "" {
				break
			}
			resub := []string{}
			resubDesc := []string{}
			for i := 0; i < nConf; i++ {
				f, ok := d.nextFrame(longWait)
				if !ok {
					break
				}
				if f.method != "eth_subscribe" {
					d.failed = fmt.Sprintf("unexpected frame after reconnect: %+v", f)
					break
				}
				id, _ := parseReqID(f.idRaw)
				s := paramInt(f, 1)
				d.pendSubs[s] = id
				resub = append(resub, fmt.Sprintf("(%d%%nat, %d)", s, id))
				resubDesc = append(resubDesc, fmt.Sprintf("s=%d id=%d", s, id))
			}
			// anything else the client sends before the barrier frame shows up in the barrier
			d.active = map[int]uint64{}
			for s := range d.pendSubs {
				found := false
				for _, x := range resub {
					if strings.HasPrefix(x, fmt.Sprintf("(%d%%nat,", s)) {
						found = true
					}
				}
				if !found {
					delete(d.pendSubs, s)
				}
			}
			d.add(fmt.Sprintf("WDrop [%s]", strings.Join(resub, "; ")), "drop; resubscribed "+strings.Join(resubDesc, " "))
			st.Hit(fmt.Sprintf("ws:drop:calls=%d:subs=%d", min(len(waitingCalls), 3), min(nConf, 3)))
			// calls outstanding on the old connection must complete; so must unsubscribes waiting for a reply
			var expC, expU []int
			for _, k := range waitingCalls {
				isUnsub := false
				for s, uk := range d.unsubbing {
					if uk == k {
						isUnsub = true
						expU = append(expU, s)
					}
				}
				if !isUnsub {
					expC = append(expC, k)
				}
			}
			d.collect(expC, nil, expU)
			if d.failed == "" {
				d.barrier()
			}
		case c < 89: // ---- cancel a waiting call
			calls := []int{}
			for _, k := range sortedKeys(d.outCalls) {
				isUnsub := false
				for _, uk := range d.unsubbing {
					if uk == k {
						isUnsub = true
					}
				}
				if !isUnsub {
					calls = append(calls, k)
				}
			}
			if len(calls) == 0 {
				continue
			}
			k := calls[r.Intn(len(calls))]
			d.cancels[k]()
			d.add(fmt.Sprintf("WCancelCall %d", k), fmt.Sprintf("cancel call k=%d", k))
			d.collect([]int{k}, nil, nil)
			st.Hit("ws:cancel-call")
		case c < 92: // ---- cancel a waiting Subscribe
			ws := []int{}
			for s := range d.subWaiting {
				ws = append(ws, s)
			}
			if len(ws) == 0 {
				continue
			}
			sort.Ints(ws)
			s := ws[r.Intn(len(ws))]
			d.subCancel[s]()
			d.subCancelled[s] = true
			d.ownRelease(s)
			d.add(fmt.Sprintf("WCancelSub %d", s), fmt.Sprintf("cancel Subscribe s=%d", s))
			d.collect(nil, []int{s}, nil)
			// its eth_subscribe stays registered in the client; a confirm may still be sent by the script
			st.Hit("ws:cancel-subscribe")
		default: // ---- Subscriptions()
			d.subsCheck()
		}
	}
	if d.failed == "" && len(d.oracle) == 0 && !d.hangSeen && profile%3 == 2 {
		d.unsubscribeAll(ctx)
	}
	if d.failed == "" && len(d.oracle) == 0 && !d.hangSeen {
		d.subsCheck()
		if profile%2 == 0 {
			// finish: drop once more, everything outstanding must complete
			waitingCalls := sortedKeys(d.outCalls)
			nConf := len(rc.Subscriptions())
			jlog("server closes the connection (final)")
			srv.closeConn(d.conn)
			d.ownDrop()
			select {
			case d.conn = <-srv.accepts:
				resub := []string{}
				for i := 0; i < nConf; i++ {
					f, ok := d.nextFrame(longWait)
					if !ok || f.method != "eth_subscribe" {
						break
					}
					id, _ := parseReqID(f.idRaw)
					resub = append(resub, fmt.Sprintf("(%d%%nat, %d)", paramInt(f, 1), id))
				}
				d.add(fmt.Sprintf("WDrop [%s]", strings.Join(resub, "; ")), "final drop")
				var expC, expU []int
				for _, k := range waitingCalls {
					isUnsub := false
					for s, uk := range d.unsubbing {
						if uk == k {
							isUnsub = true
							expU = append(expU, s)
						}
					}
					if !isUnsub {
						expC = append(expC, k)
					}
				}
				d.collect(expC, nil, expU)
				d.barrier()
			case <-time.After(longWait):
				d.failed = "client did not reconnect (final)"
			}
		}
	}
	// close the client before its context is cancelled (wsclient.Close is not safe to run twice concurrently)
	coq := fmt.Sprintf("CWs [%s]", strings.Join(d.ops, "; "))
	return coq, wsDesc{Kind: "ws", Ops: d.dops}, d.failed, d.oracle
}

// ---------------------------------------------------------------------------------------------
// Known finding C18/subscribe-straddles-reconnect: the deterministic witness, through the public API.
// Subscribe() registers its subscription (addConfiguredSub) and then marshals the parameters
// (buildRequest, inside sendSubscribe) before addInflightSub: a parameter whose first MarshalJSON blocks
// holds that window open.  Meanwhile the server drops the connection; handleReconnect snapshots the
// configured subscriptions (this one included) and re-requests it; then Subscribe() goes on and sends its own
// eth_subscribe.  Oracle (independent of the model): the frames the server receives for that one
// subscription on the new connection, and the notifications its consumer receives for one event.
// ---------------------------------------------------------------------------------------------

type blockingParam struct {
	calls   int32
	entered chan struct{}
	release chan struct{}
}

func (b *blockingParam) MarshalJSON() ([]byte, error) {
	if atomic.AddInt32(&b.calls, 1) == 1 {
		close(b.entered)
		<-b.release
	}
	return []byte(`"blocker"`), nil
}

func runStraddleWitness(st *cv.Stats) interface{} {
	st.Hit("ws:witness:subscribe-straddles-reconnect")
	srv := newWSServer()
	defer srv.srv.Close()
	ctx, cancelAll := context.WithCancel(context.Background())
	defer cancelAll()
	rc := rpcbackend.NewWSRPCClient(&wsclient.WSConfig{HTTPURL: srv.srv.URL, InitialDelay: 500 * time.Microsecond, MaximumDelay: 2 * time.Millisecond})
	if err := rc.Connect(ctx); err != nil {
		return nil
	}
	defer rc.Close()
	var hist []string
	say := func(f string, a ...interface{}) { hist = append(hist, fmt.Sprintf(f, a...)); jlog(f, a...) }
	conn := 0
	select {
	case conn = <-srv.accepts:
	case <-time.After(longWait):
		return nil
	}
	bp := &blockingParam{entered: make(chan struct{}), release: make(chan struct{})}
	released := false
	defer func() {
		if !released {
			close(bp.release)
		}
	}()
	type sr struct {
		s rpcbackend.Subscription
		e *rpcbackend.RPCError
	}
	done := make(chan sr, 1)
	go func() {
		s, e := rc.Subscribe(ctx, "newHeads", bp)
		done <- sr{s, e}
	}()
	select {
	case <-bp.entered:
	case <-time.After(longWait):
		return nil
	}
	say("Subscribe(newHeads) called: subscription registered, request not yet allocated (parameter marshalling blocks)")
	srv.closeConn(conn)
	select {
	case conn = <-srv.accepts:
	case <-time.After(longWait):
		return nil
	}
	say("server closed the connection; client reconnected")
	next := func(wait time.Duration) (wsFrame, bool) {
		select {
		case f := <-srv.frames:
			return f, true
		case <-time.After(wait):
			return wsFrame{}, false
		}
	}
	var reqs []wsFrame
	f1, ok := next(2 * time.Second)
	if ok && f1.method == "eth_subscribe" && f1.conn == conn {
		reqs = append(reqs, f1)
		say("new connection: eth_subscribe id=%s received (sent by handleReconnect)", f1.idRaw)
	}
	released = true
	close(bp.release)
	say("Subscribe() continues")
	f2, ok := next(2 * time.Second)
	if ok && f2.method == "eth_subscribe" && f2.conn == conn {
		reqs = append(reqs, f2)
		say("new connection: eth_subscribe id=%s received", f2.idRaw)
	}
	if f3, ok := next(20 * time.Millisecond); ok && f3.method == "eth_subscribe" && f3.conn == conn {
		reqs = append(reqs, f3)
		say("new connection: eth_subscribe id=%s received", f3.idRaw)
	}
	if len(reqs) == 0 {
		return nil // inconclusive (nothing arrived in time): the check notes that the finding was not reproduced
	}
	for i, f := range reqs {
		srv.send(conn, fmt.Sprintf(`{"jsonrpc":"2.0","id":%s,"result":"%s"}`, f.idRaw, hexStr(uint64(0xaa0+i))))
		say("server confirms id=%s with server subscription %s", f.idRaw, hexStr(uint64(0xaa0+i)))
	}
	var res sr
	select {
	case res = <-done:
	case <-time.After(longWait):
		return map[string]interface{}{"what": "Subscribe() did not return although its request was confirmed", "history": hist}
	}
	if res.s == nil || res.e != nil {
		return map[string]interface{}{"what": "Subscribe() failed although its request was confirmed", "history": hist}
	}
	// one event: the server notifies once per server-side subscription it was asked to create
	for i := range reqs {
		srv.send(conn, fmt.Sprintf(`{"jsonrpc":"2.0","method":"eth_subscription","params":{"subscription":"%s","result":"0x1"}}`, hexStr(uint64(0xaa0+i))))
	}
	got := 0
	timeout := time.After(2 * time.Second)
collect:
	for got < len(reqs) {
		select {
		case <-res.s.Notifications():
			got++
			timeout = time.After(100 * time.Millisecond)
		case <-timeout:
			break collect
		}
	}
	say("one event notified on each server-side subscription: the consumer of the one local subscription received %d notifications", got)
	// (no Unsubscribe here: a later notification on the leftover id would be sent on the closed channel and end the process)
	if len(reqs) == 1 && got == 1 {
		return nil
	}
	return map[string]interface{}{
		"key":     "C18/subscribe-straddles-reconnect",
		"what":    fmt.Sprintf("a subscription registered by Subscribe() while the connection drops was requested %d times on the new connection (expected once); its consumer received %d notifications for one event", len(reqs), got),
		"history": hist,
	}
}

// Second witness of the same finding, without any special parameter: Subscribe() is called while the connection is
// down.  It registers the subscription, allocates its request and blocks in wsclient.Send; when the connection comes
// back the send loop of the new connection starts before handleReconnect runs, so both the blocked frame (whose
// request id handleReconnect has meanwhile forgotten) and handleReconnect's re-request reach the server.
func runSubscribeWhileDown(st *cv.Stats) interface{} {
	st.Hit("ws:witness:subscribe-while-down")
	srv := newWSServer()
	defer srv.srv.Close()
	ctx, cancelAll := context.WithCancel(context.Background())
	defer cancelAll()
	rc := rpcbackend.NewWSRPCClient(&wsclient.WSConfig{HTTPURL: srv.srv.URL, InitialDelay: 500 * time.Microsecond, MaximumDelay: 2 * time.Millisecond})
	if err := rc.Connect(ctx); err != nil {
		return nil
	}
	defer rc.Close()
	var hist []string
	say := func(f string, a ...interface{}) { hist = append(hist, fmt.Sprintf(f, a...)); jlog(f, a...) }
	conn := 0
	select {
	case conn = <-srv.accepts:
	case <-time.After(longWait):
		return nil
	}
	gate := make(chan struct{})
	opened := false
	defer func() {
		if !opened {
			close(gate)
		}
	}()
	srv.setHold(gate)
	srv.closeConn(conn)
	say("server closed the connection and does not accept the next one yet")
	select {
	case <-srv.held: // the client has given up the old connection (its send loop has ended) and is dialling
	case <-time.After(longWait):
		return nil
	}
	done := make(chan *rpcbackend.RPCError, 1)
	go func() {
		_, e := rc.Subscribe(ctx, "newHeads")
		done <- e
	}()
	// Subscribe must be inside wsclient.Send when the connection comes back: it has nothing else to wait for
	time.Sleep(30 * time.Millisecond)
	say("Subscribe(newHeads) called while the connection is down")
	srv.setHold(nil)
	opened = true
	close(gate)
	select {
	case conn = <-srv.accepts:
	case <-time.After(longWait):
		return nil
	}
	say("connection re-established")
	var reqs []wsFrame
	wait := 2 * time.Second
	for {
		var f wsFrame
		ok := false
		select {
		case f = <-srv.frames:
			ok = true
		case <-time.After(wait):
		}
		if !ok {
			break
		}
		wait = 50 * time.Millisecond
		if f.method == "eth_subscribe" && f.conn == conn {
			reqs = append(reqs, f)
			say("new connection: eth_subscribe id=%s received", f.idRaw)
		}
	}
	if len(reqs) == 0 {
		return nil // inconclusive
	}
	for i, f := range reqs {
		srv.send(conn, fmt.Sprintf(`{"jsonrpc":"2.0","id":%s,"result":"%s"}`, f.idRaw, hexStr(uint64(0xbb0+i))))
	}
	select {
	case <-done:
	case <-time.After(longWait):
		return map[string]interface{}{"what": "Subscribe() called while the connection was down did not return after its request was confirmed", "history": hist}
	}
	if len(reqs) == 1 {
		return nil
	}
	return map[string]interface{}{
		"key":     "C18/subscribe-straddles-reconnect",
		"what":    fmt.Sprintf("a subscription registered by Subscribe() while the connection was down was requested %d times on the new connection (expected once)", len(reqs)),
		"history": hist,
	}
}

// ---------------------------------------------------------------------------------------------
// WebSocket, free-running: many goroutines call CallRPC at once while a few subscriptions receive notifications; the
// server answers out of order (batches in reverse), repeats replies, invents ids and drops the connection every now
// and then.  Oracles (implementation alone): every call returns, in bounded time, the result of its OWN request or
// an error; request ids on the wire are unique; every notification a consumer receives was addressed to it.
// ---------------------------------------------------------------------------------------------
func runWSStress(r *cv.Rand, st *cv.Stats, nCallers, perCaller, nSubs, drops int, fails *[]interface{}) {
	type pend struct{ id, p0 string }
	var mu sync.Mutex
	seenIDs := map[string]int{}
	connNo := 0
	nextSub := 0
	seeds := make([]int64, 64)
	for i := range seeds {
		seeds[i] = int64(r.Intn(1 << 30))
	}
	up := websocket.Upgrader{}
	srv := httptest.NewServer(http.HandlerFunc(func(w http.ResponseWriter, req *http.Request) {
		c, err := up.Upgrade(w, req, nil)
		if err != nil {
			return
		}
		defer c.Close()
		mu.Lock()
		me := connNo
		connNo++
		mu.Unlock()
		lr := cv.NewRand(uint64(seeds[me%len(seeds)]))
		dropAfter := -1
		if me < drops {
			dropAfter = 15 + lr.Intn(40)
		}
		accepted := time.Now()
		var wmu sync.Mutex
		write := func(s string) {
			wmu.Lock()
			_ = c.WriteMessage(websocket.TextMessage, []byte(s))
			wmu.Unlock()
		}
		var held []pend
		subs := map[string]string{} // server id -> the parameter its subscription was created with
		var hmu sync.Mutex          // held, subs, lr
		flush := func() {
			hmu.Lock()
			defer hmu.Unlock()
			for i := len(held) - 1; i >= 0; i-- { // reverse order
				h := held[i]
				write(fmt.Sprintf(`{"jsonrpc":"2.0","id":%s,"result":%s}`, h.id, h.p0))
				if lr.Intn(8) == 0 {
					write(fmt.Sprintf(`{"jsonrpc":"2.0","id":%s,"result":"dup"}`, h.id)) // duplicate with another result
				}
				if lr.Intn(16) == 0 {
					write(`{"jsonrpc":"2.0","id":"000900001","result":"nobody"}`)
				}
			}
			held = held[:0]
			for x, p := range subs {
				if lr.Intn(3) == 0 {
					write(fmt.Sprintf(`{"jsonrpc":"2.0","method":"eth_subscription","params":{"subscription":"%s","result":%s}}`, x, p))
				}
			}
		}
		connDone := make(chan struct{})
		defer close(connDone)
		go func() {
			// whatever is still held is answered after a millisecond of quiet
			t := time.NewTicker(time.Millisecond)
			defer t.Stop()
			for {
				select {
				case <-t.C:
					flush()
				case <-connDone:
					return
				}
			}
		}()
		n := 0
		for {
			_, msg, err := c.ReadMessage()
			if err != nil {
				return
			}
			var rq struct {
				ID     json.RawMessage   `json:"id"`
				Method string            `json:"method"`
				Params []json.RawMessage `json:"params"`
			}
			_ = json.Unmarshal(msg, &rq)
			mu.Lock()
			seenIDs[string(rq.ID)]++
			mu.Unlock()
			n++
			switch rq.Method {
			case "eth_subscribe":
				mu.Lock()
				nextSub++
				x := fmt.Sprintf("0x%x", 0x5000+nextSub)
				mu.Unlock()
				p := `"?"`
				if len(rq.Params) > 1 {
					p = string(rq.Params[1])
				}
				hmu.Lock()
				subs[x] = p
				hmu.Unlock()
				write(fmt.Sprintf(`{"jsonrpc":"2.0","id":%s,"result":"%s"}`, rq.ID, x))
			default:
				p0 := `"?"`
				if len(rq.Params) > 0 {
					p0 = string(rq.Params[0])
				}
				hmu.Lock()
				held = append(held, pend{string(rq.ID), p0})
				full := len(held) >= 2+lr.Intn(6)
				hmu.Unlock()
				if full {
					flush()
				}
			}
			// (not while the client's reconnect hook may still be resubscribing: known finding
			// C18/drop-during-reconnect-hook-wedges-client, which has its own witness)
			if dropAfter > 0 && n >= dropAfter && time.Since(accepted) > 30*time.Millisecond {
				if tc, ok := c.UnderlyingConn().(*net.TCPConn); ok {
					_ = tc.SetLinger(0)
				}
				return // closes the connection with requests unanswered
			}
		}
	}))
	defer srv.Close()
	ctx, cancelAll := context.WithCancel(context.Background())
	defer cancelAll()
	rc := rpcbackend.NewWSRPCClient(&wsclient.WSConfig{HTTPURL: srv.URL, InitialDelay: 500 * time.Microsecond, MaximumDelay: 2 * time.Millisecond})
	if err := rc.Connect(ctx); err != nil {
		return
	}
	defer rc.Close()
	var wrongNotif, gotNotif int64
	var firstBad atomic.Value
	for i := 0; i < nSubs; i++ {
		tag := fmt.Sprintf("sub-%d", i)
		sctx, cancel := context.WithCancel(ctx)
		guard := time.AfterFunc(5*time.Second, cancel)
		sub, e := rc.Subscribe(sctx, "verif", tag)
		guard.Stop() // sctx stays alive: it is the parent of the subscription's context
		if e != nil || sub == nil {
			continue
		}
		go func(tag string, ch chan *rpcbackend.RPCSubscriptionNotification) {
			for {
				select {
				case nf, ok := <-ch:
					if !ok {
						return
					}
					atomic.AddInt64(&gotNotif, 1)
					if nf.Result == nil || string(*nf.Result) != `"`+tag+`"` {
						atomic.AddInt64(&wrongNotif, 1)
						firstBad.CompareAndSwap(nil, fmt.Sprintf("consumer of %s received a notification addressed to %v", tag, nf.Result))
					}
				case <-ctx.Done():
					return
				}
			}
		}(tag, sub.Notifications())
	}
	var wg sync.WaitGroup
	var own, errs, wrong, hung int64
	for c := 0; c < nCallers; c++ {
		wg.Add(1)
		go func(c int) {
			defer wg.Done()
			for j := 0; j < perCaller; j++ {
				tag := fmt.Sprintf("c%d-%d", c, j)
				cctx, cancel := context.WithTimeout(ctx, 8*time.Second)
				var out string
				e := rc.CallRPC(cctx, &out, "verif_stress", tag)
				timedOut := cctx.Err() != nil
				cancel()
				switch {
				case e == nil && out == tag:
					atomic.AddInt64(&own, 1)
				case e == nil:
					atomic.AddInt64(&wrong, 1)
					firstBad.CompareAndSwap(nil, fmt.Sprintf("call %s returned the result %q", tag, out))
				case timedOut:
					atomic.AddInt64(&hung, 1)
					firstBad.CompareAndSwap(nil, fmt.Sprintf("call %s did not complete within 8 s", tag))
				default:
					atomic.AddInt64(&errs, 1)
				}
			}
		}(c)
	}
	wg.Wait()
	mu.Lock()
	dups := 0
	for _, n := range seenIDs {
		if n > 1 {
			dups++
		}
	}
	conns := connNo
	mu.Unlock()
	key := ""
	if hung > 0 && wrong == 0 && wrongNotif == 0 && dups == 0 {
		// is the client still alive?  If a fresh call is not answered either, the client is not connected any more:
		// the wedge of the known finding (a connection that died inside the reconnect hook), not a lost call
		pctx, pc := context.WithTimeout(ctx, 2*time.Second)
		var out string
		if e := rc.CallRPC(pctx, &out, "verif_stress", "probe"); e != nil {
			key = "C18/drop-during-reconnect-hook-wedges-client"
		}
		pc()
	}
	if wrong > 0 || hung > 0 || wrongNotif > 0 || dups > 0 {
		*fails = append(*fails, map[string]interface{}{"key": key, "what": "WebSocket client under concurrent callers: a call returned a result that is not its own, hung, a notification reached the wrong subscription, or a request id was used twice",
			"callers": nCallers, "wrong_results": wrong, "hung": hung, "wrong_notifications": wrongNotif, "duplicate_ids": dups, "first": firstBad.Load()})
	}
	st.Hit(fmt.Sprintf("ws-stress:callers=%d:subs=%d:connections=%d", nCallers, nSubs, conns))
	st.Extra[fmt.Sprintf("ws_stress_%d_callers", nCallers)] = map[string]int64{"own_result": own, "errors_after_drop": errs, "notifications": gotNotif, "connections": int64(conns)}
	st.Evaluations += nCallers * perCaller
}

// Regression hunt for the repaired defect 8f787ed (D18c): the server confirms an eth_subscribe and closes the connection
// at once, while other goroutines keep the client's mutex busy through Subscriptions().  Before the repair the receive
// loop could take the confirmation off the pending table before the reconnect cleared the tables and record the old
// connection's server id afterwards (reproduced within about ten iterations); a notification carrying that id on the
// new connection was then delivered.  Timing dependent: can only find a failure, never raise a false one.
func runConfirmStraddleHunt(st *cv.Stats, budget time.Duration) interface{} {
	st.Hit("ws:hunt:confirmation-straddles-reconnect")
	deadline := time.Now().Add(budget)
	iters := 0
	var connNo int32
	up := websocket.Upgrader{}
	srv := httptest.NewServer(http.HandlerFunc(func(w http.ResponseWriter, r *http.Request) {
		c, err := up.Upgrade(w, r, nil)
		if err != nil {
			return
		}
		me := atomic.AddInt32(&connNo, 1)
		for {
			_, msg, err := c.ReadMessage()
			if err != nil {
				return
			}
			var rq struct {
				ID     json.RawMessage `json:"id"`
				Method string          `json:"method"`
			}
			_ = json.Unmarshal(msg, &rq)
			if rq.Method != "eth_subscribe" {
				continue
			}
			_ = c.WriteMessage(websocket.TextMessage, []byte(fmt.Sprintf(`{"jsonrpc":"2.0","id":%s,"result":"0xc%d"}`, rq.ID, me)))
			if me == 1 {
				if tc, ok := c.UnderlyingConn().(*net.TCPConn); ok {
					_ = tc.SetLinger(0)
				}
				_ = c.Close()
				return
			}
			_ = c.WriteMessage(websocket.TextMessage, []byte(`{"jsonrpc":"2.0","method":"eth_subscription","params":{"subscription":"0xc1","result":"old"}}`))
			_ = c.WriteMessage(websocket.TextMessage, []byte(fmt.Sprintf(`{"jsonrpc":"2.0","method":"eth_subscription","params":{"subscription":"0xc%d","result":"new"}}`, me)))
		}
	}))
	defer srv.Close()
	for time.Now().Before(deadline) {
		iters++
		atomic.StoreInt32(&connNo, 0)
		ctx, cancel := context.WithCancel(context.Background())
		rc := rpcbackend.NewWSRPCClient(&wsclient.WSConfig{HTTPURL: srv.URL, InitialDelay: time.Microsecond, MaximumDelay: time.Millisecond})
		bad := false
		if err := rc.Connect(ctx); err == nil {
			stop := make(chan struct{})
			for g := 0; g < 8; g++ {
				go func() {
					for {
						select {
						case <-stop:
							return
						default:
							_ = rc.Subscriptions()
						}
					}
				}()
			}
			// (the subscription's own context is a child of the one Subscribe is called with: it must stay alive, or
			// the receive loop is free to drop every notification)
			sctx, c2 := context.WithCancel(ctx)
			guard := time.AfterFunc(2*time.Second, c2)
			sub, _ := rc.Subscribe(sctx, "newHeads")
			guard.Stop()
			if sub != nil {
				t := time.After(time.Second)
			wait:
				for {
					select {
					case n, ok := <-sub.Notifications():
						if !ok {
							break wait
						}
						if n.Result != nil && string(*n.Result) == `"old"` {
							bad = true
						}
						if n.Result != nil && string(*n.Result) == `"new"` {
							break wait
						}
					case <-t:
						break wait
					}
				}
			}
			close(stop)
			rc.Close()
		}
		cancel()
		if bad {
			return map[string]interface{}{"what": "a notification carrying the server id a subscription had on the OLD connection was delivered to it on the new connection (confirmation handled across the reconnect)",
				"history": []string{"Subscribe(newHeads); server confirms with 0xc1 and closes the connection at once; 8 goroutines call Subscriptions() in a loop",
					"client reconnects and re-requests; server confirms with 0xc2 and sends notifications for 0xc1 (\"old\") and 0xc2 (\"new\")",
					fmt.Sprintf("iteration %d: the consumer received the notification \"old\"", iters)}}
		}
	}
	st.Extra["confirm_straddle_hunt_iterations"] = iters
	return nil
}

// Known finding C18/drop-during-reconnect-hook-wedges-client: the deterministic witness.  Six configured subscriptions;
// the server drops the connection and resets the next one as soon as it is accepted.  handleReconnect re-requests the
// subscriptions through wsclient.Send; the send loop of the new connection ends at its first failed write, nobody
// receives from the send channel any more, and the hook (hence the whole connect/reconnect loop) blocks for ever: the
// client never reconnects, every later call blocks in Send until its own context ends.
func runDropDuringHook(st *cv.Stats) interface{} {
	st.Hit("ws:witness:drop-during-reconnect-hook")
	var connNo int32
	up := websocket.Upgrader{}
	srv := httptest.NewServer(http.HandlerFunc(func(w http.ResponseWriter, r *http.Request) {
		c, err := up.Upgrade(w, r, nil)
		if err != nil {
			return
		}
		me := atomic.AddInt32(&connNo, 1)
		kill := func() {
			if tc, ok := c.UnderlyingConn().(*net.TCPConn); ok {
				_ = tc.SetLinger(0)
			}
			_ = c.Close()
		}
		if me == 2 {
			kill()
			return
		}
		n := 0
		for {
			_, msg, err := c.ReadMessage()
			if err != nil {
				return
			}
			var rq struct {
				ID     json.RawMessage `json:"id"`
				Method string          `json:"method"`
			}
			_ = json.Unmarshal(msg, &rq)
			switch rq.Method {
			case "eth_subscribe":
				n++
				_ = c.WriteMessage(websocket.TextMessage, []byte(fmt.Sprintf(`{"jsonrpc":"2.0","id":%s,"result":"0x%d%d"}`, rq.ID, me, n)))
			case "verif_drop":
				kill()
				return
			default:
				_ = c.WriteMessage(websocket.TextMessage, []byte(fmt.Sprintf(`{"jsonrpc":"2.0","id":%s,"result":"ok"}`, rq.ID)))
			}
		}
	}))
	defer srv.Close()
	ctx, cancel := context.WithCancel(context.Background())
	defer cancel()
	rc := rpcbackend.NewWSRPCClient(&wsclient.WSConfig{HTTPURL: srv.URL, InitialDelay: 500 * time.Microsecond, MaximumDelay: 2 * time.Millisecond})
	if err := rc.Connect(ctx); err != nil {
		return nil
	}
	defer rc.Close()
	for i := 0; i < 6; i++ {
		sctx, c := context.WithTimeout(ctx, 2*time.Second)
		_, e := rc.Subscribe(sctx, "newHeads", i)
		_ = c // (the subscription's context is a child of sctx: not cancelled here)
		if e != nil {
			return nil
		}
	}
	c1, k1 := context.WithTimeout(ctx, time.Second)
	_ = rc.CallRPC(c1, nil, "verif_drop")
	k1()
	// a correct client is connected again within milliseconds; give it two seconds
	var e *rpcbackend.RPCError
	var out string
	for try := 0; try < 4; try++ {
		c2, k2 := context.WithTimeout(ctx, 500*time.Millisecond)
		e = rc.CallRPC(c2, &out, "verif_ping")
		k2()
		if e == nil {
			return nil
		}
	}
	return map[string]interface{}{
		"key":  "C18/drop-during-reconnect-hook-wedges-client",
		"what": fmt.Sprintf("after a drop whose next connection was reset while handleReconnect was re-requesting 6 subscriptions the client never reconnected (%d connections accepted in 2 s); a later call failed with: %s", atomic.LoadInt32(&connNo), e.Message),
		"history": []string{"6 x Subscribe(newHeads, i), each confirmed", "server drops connection 1 and resets connection 2 as soon as it is accepted",
			"CallRPC(verif_ping) with a 500 ms context, 4 times: never answered, no third connection"},
	}
}

// ---------------------------------------------------------------------------------------------
// Directed history "the reconnect hook fails": calls are outstanding and subscriptions are configured when the
// connection drops; on the re-established connection one resubscribe cannot be made (its parameter refuses to be
// marshalled exactly once: buildRequest fails inside handleReconnect, which returns the error - the connection itself
// stays healthy, so this is NOT the wedge of C18/drop-during-reconnect-hook-wedges-client); wsclient connects once
// more and the second run of the hook succeeds.  Oracle (implementation alone): once the second hook has settled
// (every subscription re-requested on the last connection, a fresh call answered) every call that was outstanding on
// the first connection must have returned an error.  handleReconnect fails the calls before it attempts any
// resubscribe (theorem C18_ws_reconnect_calls_before_resubscribe), so on a correct client they return during the
// FIRST hook run; a call still blocked 3 s after the second one settled is a failing history.
// The model expresses a failing hook as ERcSend false (after the request id was allocated); here it fails before the
// allocation, which differs only in the request counter - hence no replay in Coq for this history.
// ---------------------------------------------------------------------------------------------
type flakyParam struct {
	failNext int32
	tag      int
}

func (p *flakyParam) MarshalJSON() ([]byte, error) {
	if atomic.LoadInt32(&p.failNext) > 0 {
		atomic.AddInt32(&p.failNext, -1)
		return nil, errors.New("cannot be marshalled right now")
	}
	return []byte(fmt.Sprintf(`"flaky-%d"`, p.tag)), nil
}

func runHookAbortHistory(st *cv.Stats, nCalls, nSubs, flakyPos int) (interface{}, string, []string) {
	fail, coq, dops := runHookAbortHistory0(st, nCalls, nSubs, flakyPos)
	return fail, coq, dops
}

// (the model replay of this history: WDropAbort = the hook gives up in buildRequest, before addInflightSub - event
// ERcBuildFail; the id of the re-request on the last connection shows that the failed attempt consumed no id)
func runHookAbortHistory0(st *cv.Stats, nCalls, nSubs, flakyPos int) (fail interface{}, coqCase string, dops []string) {
	var ops []string
	addOp := func(coq, desc string) { ops = append(ops, coq); dops = append(dops, desc) }
	res := runHookAbortHistory1(st, nCalls, nSubs, flakyPos, addOp)
	if res == nil && len(ops) > 0 {
		coqCase = fmt.Sprintf("CWs [%s]", strings.Join(ops, "; "))
	} else {
		dops = nil
	}
	return res, coqCase, dops
}

func runHookAbortHistory1(st *cv.Stats, nCalls, nSubs, flakyPos int, addOp func(coq, desc string)) interface{} {
	opsDone := false
	var pendingOps [][2]string
	op := func(coq, desc string) { pendingOps = append(pendingOps, [2]string{coq, desc}) }
	defer func() {
		if opsDone && nSubs == 1 {
			for _, o := range pendingOps {
				addOp(o[0], o[1])
			}
		}
	}()
	st.Hit(fmt.Sprintf("ws:directed:reconnect-hook-fails:calls=%d:subs=%d", nCalls, nSubs))
	srv := newWSServer()
	defer srv.srv.Close()
	ctx, cancelAll := context.WithCancel(context.Background())
	defer cancelAll()
	rc := rpcbackend.NewWSRPCClient(&wsclient.WSConfig{HTTPURL: srv.srv.URL, InitialDelay: 500 * time.Microsecond, MaximumDelay: 2 * time.Millisecond})
	if err := rc.Connect(ctx); err != nil {
		return nil
	}
	defer rc.Close()
	var hist []string
	say := func(f string, a ...interface{}) { hist = append(hist, fmt.Sprintf(f, a...)); jlog(f, a...) }
	conn := 0
	select {
	case conn = <-srv.accepts:
	case <-time.After(longWait):
		return nil
	}
	next := func(wait time.Duration) (wsFrame, bool) {
		select {
		case f := <-srv.frames:
			return f, true
		case <-time.After(wait):
			return wsFrame{}, false
		}
	}
	flaky := &flakyParam{tag: flakyPos}
	for i := 0; i < nSubs; i++ {
		var p interface{} = i
		if i == flakyPos {
			p = flaky
		}
		done := make(chan *rpcbackend.RPCError, 1)
		go func() {
			_, e := rc.Subscribe(ctx, "verif", p)
			done <- e
		}()
		f, ok := next(longWait)
		if !ok || f.method != "eth_subscribe" {
			return nil
		}
		srv.send(conn, fmt.Sprintf(`{"jsonrpc":"2.0","id":%s,"result":"%s"}`, f.idRaw, hexStr(uint64(0xd00+i))))
		if sid, okID := parseReqID(f.idRaw); okID {
			op(fmt.Sprintf("WSub %d %d", i, sid), "Subscribe "+string(f.idRaw))
			op(fmt.Sprintf("WFrame (FReply (Some %d) false (Some %d)) []", sid, 0xd00+i), "confirmation")
			op(fmt.Sprintf("WSubRet %d 0", i), "Subscribe returned")
		}
		select {
		case e := <-done:
			if e != nil {
				return nil
			}
		case <-time.After(longWait):
			return nil
		}
	}
	say("%d subscriptions configured and confirmed (number %d has a parameter that can refuse to be marshalled)", nSubs, flakyPos)
	type ret struct {
		k int
		e *rpcbackend.RPCError
	}
	rets := make(chan ret, nCalls)
	for k := 0; k < nCalls; k++ {
		k := k
		go func() {
			var out interface{}
			rets <- ret{k, rc.CallRPC(ctx, &out, "verif_call", k)}
		}()
		f, ok := next(longWait)
		if !ok || f.method != "verif_call" {
			return nil
		}
		if cid, okID := parseReqID(f.idRaw); okID {
			op(fmt.Sprintf("WCall %d %d", 100+k, cid), "CallRPC "+string(f.idRaw))
		}
	}
	say("%d calls outstanding (the server has their frames and does not answer)", nCalls)
	atomic.StoreInt32(&flaky.failNext, 1)
	srv.closeConn(conn)
	say("server closes the connection; the next resubscribe of subscription %d will fail once", flakyPos)
	// connection 2 (hook fails), connection 3 (hook succeeds: nSubs eth_subscribe frames on it)
	last, seen := -1, 0
	var lastSubReq json.RawMessage
	deadline := time.After(longWait)
settle:
	for {
		select {
		case c := <-srv.accepts:
			last, seen = c, 0
			say("connection %d accepted", c)
		case f := <-srv.frames:
			if f.method == "eth_subscribe" && f.conn == last {
				seen++
				lastSubReq = f.idRaw
			}
			if seen == nSubs && last >= conn+2 {
				break settle
			}
		case <-deadline:
			return nil // inconclusive: the client did not get that far (not this oracle's business)
		}
	}
	if atomic.LoadInt32(&flaky.failNext) != 0 {
		return nil
	}
	say("all %d subscriptions re-requested on connection %d (the hook failed once before)", nSubs, last)
	// (No further frame is sent by this history: after a hook failure firefly-common's wsclient runs TWO send loops
	// on the new connection - it starts a new one without stopping the old - and two sends close together end in
	// gorilla's "concurrent write to websocket connection" panic.  Hence also one subscription only.)
	time.Sleep(30 * time.Millisecond)
	got := map[int]bool{}
	noErr := []int{}
	timeout := time.After(returnWait)
collect:
	for len(got) < nCalls {
		select {
		case r := <-rets:
			got[r.k] = true
			if r.e == nil {
				noErr = append(noErr, r.k)
			}
		case <-timeout:
			break collect
		}
	}
	if len(got) == nCalls && len(noErr) == 0 {
		if rid, okID := parseReqID(lastSubReq); okID && last == conn+2 {
			// exactly one failed hook run (connection 2), then the successful one (connection 3)
			op(fmt.Sprintf("WDropAbort [] %d", flakyPos), "connection dropped; the reconnect hook failed all calls and gave up building the re-request (no id consumed)")
			for k := 0; k < nCalls; k++ {
				op(fmt.Sprintf("WCallRet %d OErrInternal", 100+k), "call returned the reconnect error")
			}
			op(fmt.Sprintf("WDrop [(%d%%nat, %d)]", flakyPos, rid), "next connection: the hook re-requested the subscription with id "+string(lastSubReq))
			opsDone = true
			st.Hit("ws:directed:reconnect-hook-fails:replayed-in-model")
		}
		return nil
	}
	missing := []int{}
	for k := 0; k < nCalls; k++ {
		if !got[k] {
			missing = append(missing, k)
		}
	}
	say("calls still blocked %v after the reconnect settled: %v; calls that returned without an error: %v", returnWait, missing, noErr)
	return map[string]interface{}{
		"what":    fmt.Sprintf("%d of %d calls that were outstanding when the connection dropped did not complete with an error although the connection was re-established (the first run of the reconnect hook failed at a resubscribe, the second succeeded)", len(missing)+len(noErr), nCalls),
		"history": hist,
	}
}

// The parent process: runs the harness proper as a child.  The clients under test start goroutines of their own; a
// panic there (e.g. a send on a closed notifications channel) ends the process and cannot be recovered in-process.
// The parent then reports the journal of the sequence that was running as a failing input of the implementation.
func supervise(out string) {
	// the child must not outlive this process (a timeout of the check kills the parent only): parent-death signal,
	// which is tied to the forking thread, hence the lock
	runtime.LockOSThread()
	args := append([]string{"-child"}, os.Args[1:]...)
	cmd := exec.Command(os.Args[0], args...)
	cmd.SysProcAttr = &syscall.SysProcAttr{Pdeathsig: syscall.SIGKILL}
	sigs := make(chan os.Signal, 1)
	signal.Notify(sigs, syscall.SIGTERM, syscall.SIGINT)
	go func() {
		<-sigs
		if cmd.Process != nil {
			_ = cmd.Process.Kill()
		}
		os.Exit(143)
	}()
	cmd.Stdout = os.Stdout
	var errbuf strings.Builder
	cmd.Stderr = &errbuf
	err := cmd.Run()
	if err == nil {
		fmt.Fprint(os.Stderr, errbuf.String())
		return
	}
	stderr := errbuf.String()
	// the sequence that was running: the journal from its last "===" line
	var hist []string
	if b, e := os.ReadFile(filepath.Join(out, "journal_C18.txt")); e == nil {
		lines := strings.Split(strings.TrimRight(string(b), "\n"), "\n")
		start := 0
		for i, l := range lines {
			if strings.HasPrefix(l, "=== ") {
				start = i
			}
		}
		hist = lines[start:]
	}
	first := []string{}
	for _, l := range strings.Split(stderr, "\n") {
		if strings.HasPrefix(l, "panic:") || strings.HasPrefix(l, "fatal error:") || strings.Contains(l, "pkg/rpcbackend") {
			first = append(first, strings.TrimSpace(l))
		}
		if len(first) >= 6 {
			break
		}
	}
	if len(first) == 0 {
		// not a crash of the code under test: let the check see the failure of the harness itself
		fmt.Fprint(os.Stderr, stderr)
		os.Exit(1)
	}
	// remove anything half written
	if ms, _ := filepath.Glob(filepath.Join(out, "cases_C18_*")); ms != nil {
		for _, m := range ms {
			_ = os.Remove(m)
		}
	}
	st := cv.NewStats()
	st.Rule = "the harness process was brought down by the code under test; no cases were written"
	st.ImplFailures = append(st.ImplFailures, map[string]interface{}{
		"what":    "the client panicked (process exit) during this sequence: " + strings.Join(first, " | "),
		"history": hist,
	})
	if err := st.Write(filepath.Join(out, "stats_C18.json")); err != nil {
		panic(err)
	}
	fmt.Printf("C18 harness: the client under test crashed the process (%s); reported as a failing input with its history (%d operations)\n", first[0], len(hist))
}

func min(a, b int) int {
	if a < b {
		return a
	}
	return b
}

// ---------------------------------------------------------------------------------------------

func main() {
	out := flag.String("out", "", "output directory")
	tier := flag.String("tier", "quick", "quick|thorough")
	replay := flag.String("replay", "", "replay file")
	child := flag.Bool("child", false, "internal: do the work (the parent only supervises, see supervise)")
	flag.Parse()
	if *out == "" {
		fmt.Fprintln(os.Stderr, "need -out")
		os.Exit(2)
	}
	_ = os.MkdirAll(*out, 0o755)
	if !*child && *replay == "" {
		supervise(*out)
		return
	}
	if f, err := os.Create(filepath.Join(*out, "journal_C18.txt")); err == nil {
		journal = f
		defer f.Close()
	}
	logrus.SetOutput(io.Discard)
	logrus.SetLevel(logrus.PanicLevel)
	header := "From Coq Require Import List NArith.\nFrom FFS Require Import WsClient.Model WsClient.Run.\nImport ListNotations.\nOpen Scope N_scope."
	st := cv.NewStats()
	st.Rule = "distinct operation sequences (HTTP: limit x callers x reply script; WebSocket: op script) whose model run takes a non-default branch (a reply, drop, cancel, duplicate/unknown id or notification)"
	w := cv.NewWriter(*out, "C18", header, "case", "mismatches", 16)
	thorough := *tier == "thorough"
	if *replay != "" {
		fmt.Println("replay: C18 cases are interactive sequences; re-run ./check C18 with the VERIF_SEED recorded in the replay file")
		st.Write(filepath.Join(*out, "stats_C18.json"))
		return
	}
	var fails []interface{}
	seen := map[string]bool{}
	addCase := func(coq string, desc interface{}) {
		if coq == "" {
			return
		}
		st.Evaluations++
		if !seen[coq] {
			seen[coq] = true
			st.Distinct++
		}
		if len(st.Samples) < 6 {
			st.Samples = append(st.Samples, desc)
		}
		w.Add(coq, desc)
	}

	// ---- HTTP: scripted cases: every limit 0..8 with few and many callers
	r := cv.NewRand(18)
	type lc struct{ limit, callers int }
	var plan []lc
	for limit := 0; limit <= 8; limit++ {
		plan = append(plan, lc{limit, limit + 2})
	}
	plan = append(plan, lc{1, 1}, lc{1, 2}, lc{2, 64}, lc{8, 64}, lc{8, 8}, lc{8, 9}, lc{3, 20}, lc{1, 16})
	nRandHTTP := 8
	if thorough {
		nRandHTTP = 60
	}
	for i := 0; i < nRandHTTP; i++ {
		plan = append(plan, lc{1 + r.Intn(8), 1 + r.Intn(64)})
	}
	for _, p := range plan {
		jlog("=== HTTP sequence: limit %d, %d callers", p.limit, p.callers)
		coq, d := runHTTPCase(r, st, p.limit, p.callers, &fails)
		addCase(coq, d)
	}
	// ---- HTTP: free-running
	for _, p := range []lc{{1, 8}, {2, 16}, {3, 64}, {8, 64}, {5, 32}} {
		runHTTPStress(r, st, p.limit, p.callers, 6, &fails)
	}
	if thorough {
		for i := 0; i < 20; i++ {
			runHTTPStress(r, st, 1+r.Intn(8), 1+r.Intn(64), 20, &fails)
		}
	}

	// ---- WebSocket: scripted sequences
	nWS := 150
	nOps := 22
	if thorough {
		nWS, nOps = 800, 40
	}
	flaky, skipped, badSeqs := 0, 0, 0
	// ---- WebSocket: the fixed witness of the known finding C18/subscribe-straddles-reconnect (every run)
	jlog("=== WebSocket: Subscribe() straddling a reconnect")
	if f := runStraddleWitness(st); f != nil {
		fails = append(fails, f)
	}
	jlog("=== WebSocket: Subscribe() while the connection is down")
	if f := runSubscribeWhileDown(st); f != nil {
		fails = append(fails, f)
	}
	for i := 0; i < nWS; i++ {
		jlog("=== WebSocket sequence %d", i)
		coq, d, failed, oracle := runWSCase(r, st, nOps+r.Intn(8), i)
		for _, o := range oracle {
			fails = append(fails, map[string]interface{}{"what": "WebSocket client: " + o, "ops": d.Ops})
		}
		if len(oracle) > 0 || strings.Contains(coq, "WCallHang") {
			badSeqs++
		}
		if badSeqs >= 8 {
			// enough failing histories; a broken client makes every further sequence wait for its timeouts
			st.Extra["ws_sequences_not_run_after_failures"] = nWS - i - 1
			addCase(coq, d)
			break
		}
		if strings.HasPrefix(failed, "connect: ") || failed == "no accept" {
			// the sequence never started (the test server could not be reached: ports, load): not an observation
			skipped++
			continue
		}
		if failed != "" {
			// the driver lost synchronisation with the client: a missing frame / return is itself an observation
			flaky++
			fails = append(fails, map[string]interface{}{"what": "WebSocket client did not do what every execution of the model does: " + failed, "ops": d.Ops})
			continue
		}
		addCase(coq, d)
	}
	// ---- WebSocket: directed histories in which the reconnect hook fails once (calls must complete all the same)
	hookPlans := [][3]int{{1, 1, 0}, {2, 1, 0}, {3, 1, 0}, {8, 1, 0}, {1, 1, 0}, {16, 1, 0}}
	if thorough {
		for i := 0; i < 30; i++ {
			hookPlans = append(hookPlans, [3]int{1 + r.Intn(32), 1, 0})
		}
	}
	for _, hp := range hookPlans {
		jlog("=== WebSocket: the reconnect hook fails once (%d calls outstanding, %d subscriptions)", hp[0], hp[1])
		f, hcoq, hdops := runHookAbortHistory(st, hp[0], hp[1], hp[2])
		if f != nil {
			fails = append(fails, f)
		}
		if hcoq != "" {
			addCase(hcoq, wsDesc{Kind: "ws", Ops: hdops})
		}
	}
	jlog("=== WebSocket: the connection is reset while handleReconnect is resubscribing")
	if f := runDropDuringHook(st); f != nil {
		fails = append(fails, f)
	}
	jlog("=== WebSocket: hunt for a confirmation handled across a reconnect")
	huntBudget := 1200 * time.Millisecond
	if thorough {
		huntBudget = 20 * time.Second
	}
	if f := runConfirmStraddleHunt(st, huntBudget); f != nil {
		fails = append(fails, f)
	}
	// ---- WebSocket: free-running
	for _, p := range []struct{ callers, per, subs, drops int }{{8, 12, 2, 2}, {64, 6, 3, 3}, {24, 10, 1, 0}} {
		jlog("=== WebSocket stress: %d callers", p.callers)
		runWSStress(r, st, p.callers, p.per, p.subs, p.drops, &fails)
	}
	if thorough {
		for i := 0; i < 12; i++ {
			jlog("=== WebSocket stress (thorough) %d", i)
			runWSStress(r, st, 1+r.Intn(64), 20, r.Intn(4), r.Intn(6), &fails)
		}
	}
	st.Extra["ws_sequences"] = nWS
	st.Extra["ws_driver_failures"] = flaky
	st.Extra["ws_sequences_skipped_no_connection"] = skipped
	st.ImplFailures = append(st.ImplFailures, fails...)
	if err := w.Flush(); err != nil {
		panic(err)
	}
	if err := st.Write(filepath.Join(*out, "stats_C18.json")); err != nil {
		panic(err)
	}
	fmt.Printf("C18 harness: %d cases (%d distinct), %d implementation-oracle failures\n", st.Evaluations, st.Distinct, len(fails))
}
