// Harness for C06 (RLP codec).  Generates trees and decoder inputs, runs pkg/rlp on them under
// recover(), and writes Coq case files that Rlp/Run.v evaluates against the model and the
// Yellow-Paper spec.
package main

import (
	"bytes"
	"encoding/hex"
	"encoding/json"
	"flag"
	"fmt"
	"math/big"
	"os"
	"path/filepath"
	"runtime/debug"
	"strings"

	"github.com/hyperledger/firefly-signer/pkg/ethtypes"
	"github.com/hyperledger/firefly-signer/pkg/rlp"
	"verifharness/cv"
)

type tree struct {
	list bool
	data cv.DSL
	kids []*tree
}

func (t *tree) coq() string {
	if !t.list {
		return "(DStr " + t.data.Coq() + ")"
	}
	parts := make([]string, len(t.kids))
	for i, k := range t.kids {
		parts[i] = k.coq()
	}
	return "(DLst [" + strings.Join(parts, "; ") + "])"
}
func (t *tree) describe() string {
	if !t.list {
		return `"` + t.data.Describe() + `"`
	}
	parts := make([]string, len(t.kids))
	for i, k := range t.kids {
		parts[i] = k.describe()
	}
	return "[" + strings.Join(parts, ",") + "]"
}
func (t *tree) elem() rlp.Element {
	if !t.list {
		return rlp.Data(t.data.Expand())
	}
	l := make(rlp.List, len(t.kids))
	for i, k := range t.kids {
		l[i] = k.elem()
	}
	return l
}
// elemArena builds the same element with every string a sub-slice of one shared arena (consecutive,
// cap > len): an encoder that appends to or writes through a slice of the tree clobbers a sibling
func (t *tree) elemArena(a *cv.Arena) rlp.Element {
	if !t.list {
		return rlp.Data(a.Put(t.data.Expand()))
	}
	l := make(rlp.List, len(t.kids), len(t.kids)+2)
	for i, k := range t.kids {
		l[i] = k.elemArena(a)
	}
	return l
}
func (t *tree) dataLen() int {
	if !t.list {
		return t.data.Len()
	}
	n := 0
	for _, k := range t.kids {
		n += k.dataLen()
	}
	return n
}
func (t *tree) depth() int {
	d := 0
	for _, k := range t.kids {
		if kd := k.depth(); kd > d {
			d = kd
		}
	}
	if t.list {
		return d + 1
	}
	return 0
}

func fromElem(e rlp.Element) *tree {
	if e == nil {
		return nil
	}
	if !e.IsList() {
		return &tree{data: cv.Compress([]byte(e.(rlp.Data)))}
	}
	t := &tree{list: true}
	for _, k := range e.(rlp.List) {
		t.kids = append(t.kids, fromElem(k))
	}
	return t
}

func equalElem(a, b rlp.Element) bool {
	if a == nil || b == nil {
		return a == nil && b == nil
	}
	if a.IsList() != b.IsList() {
		return false
	}
	if !a.IsList() {
		return bytes.Equal([]byte(a.(rlp.Data)), []byte(b.(rlp.Data)))
	}
	la, lb := a.(rlp.List), b.(rlp.List)
	if len(la) != len(lb) {
		return false
	}
	for i := range la {
		if !equalElem(la[i], lb[i]) {
			return false
		}
	}
	return true
}

var thresholds = []int{0, 1, 1, 2, 3, 20, 32, 54, 55, 56, 57, 100, 255, 256, 257, 1000}
var bigThresholds = []int{65535, 65536, 65537}

func genString(r *cv.Rand, st *cv.Stats, allowBig bool) cv.DSL {
	var n int
	switch c := r.Intn(10); {
	case c < 6:
		n = r.Pick(thresholds)
	case c < 9:
		n = r.Intn(70)
	default:
		if allowBig {
			n = r.Pick(bigThresholds)
		} else {
			n = 56 + r.Intn(300)
		}
	}
	st.Hit(fmt.Sprintf("strlen:%s", bucket(n)))
	if n == 1 {
		// both sides of the single-byte rule
		b := []byte{0x00, 0x01, 0x7f, 0x80, 0x81, 0xff}[r.Intn(6)]
		if r.Intn(3) == 0 {
			b = r.Byte()
		}
		if b < 0x80 {
			st.Hit("single<0x80")
		} else {
			st.Hit("single>=0x80")
		}
		return cv.Lit([]byte{b})
	}
	if n > 300 || r.Intn(4) == 0 {
		return cv.Rep(r.Byte(), n)
	}
	return cv.Lit(r.Bytes(n))
}

func bucket(n int) string {
	switch {
	case n == 0:
		return "0"
	case n == 1:
		return "1"
	case n < 55:
		return "2..54"
	case n == 55:
		return "55"
	case n == 56:
		return "56"
	case n < 255:
		return "57..254"
	case n == 255:
		return "255"
	case n == 256:
		return "256"
	case n < 65535:
		return "257..65534"
	case n == 65535:
		return "65535"
	case n == 65536:
		return "65536"
	default:
		return ">65536"
	}
}

func genTree(r *cv.Rand, st *cv.Stats, depth int, allowBig bool) *tree {
	if depth == 0 || r.Intn(3) == 0 {
		return &tree{data: genString(r, st, allowBig)}
	}
	t := &tree{list: true}
	n := []int{0, 1, 1, 2, 2, 3, 4}[r.Intn(7)]
	for i := 0; i < n; i++ {
		t.kids = append(t.kids, genTree(r, st, depth-1, false))
	}
	return t
}

// payloadTree builds a list whose payload length is exactly n (n >= 0) out of single-byte strings
// and one filler string, so list payloads cross the same thresholds as strings.
func payloadTree(r *cv.Rand, n int) *tree {
	t := &tree{list: true}
	rem := n
	for rem > 0 {
		switch {
		case rem >= 3 && r.Intn(2) == 0:
			k := rem - 1
			if k > 55 {
				k = 55
			}
			if k >= 2 {
				t.kids = append(t.kids, &tree{data: cv.Rep(0x61, k)}) // 1+k bytes
				rem -= 1 + k
				continue
			}
			fallthrough
		default:
			t.kids = append(t.kids, &tree{data: cv.Lit([]byte{byte(r.Intn(0x80))})})
			rem--
		}
	}
	return t
}

type desc struct {
	Kind  string `json:"kind"`
	Input string `json:"input"`
	Full  string `json:"full_hex,omitempty"`
	Trail string `json:"trail,omitempty"`
	Impl  string `json:"impl"`
}

func outBytes(b []byte) string {
	if len(b) <= 4096 {
		return "(OLit " + cv.Lit(b).Coq() + ")"
	}
	l, a, s := cv.Cks(b)
	return fmt.Sprintf("(OCks %d %d %d)", l, a, s)
}

func safeDecode(in []byte) (e rlp.Element, pos int, err error, panicked bool) {
	defer func() {
		if x := recover(); x != nil {
			panicked = true
		}
	}()
	e, pos, err = rlp.Decode(in)
	return
}

func safeEncode(e rlp.Element) (out []byte, panicked bool) {
	defer func() {
		if x := recover(); x != nil {
			panicked = true
		}
	}()
	return e.Encode(), false
}

// results kept to be compared again after many other calls have run (a result that shares a buffer
// with later calls, or package state corrupted by them, shows up as a change)
type kept struct {
	what     string
	enc      []byte // as returned
	encCopy  []byte
	elem     rlp.Element // as returned by Decode
	elemCopy rlp.Element
}

var retained []kept

func cloneElem(e rlp.Element) rlp.Element {
	if e == nil {
		return nil
	}
	if !e.IsList() {
		return rlp.Data(append([]byte{}, e.(rlp.Data)...))
	}
	l := rlp.List{}
	for _, k := range e.(rlp.List) {
		l = append(l, cloneElem(k))
	}
	return l
}

func retain(what string, enc []byte, elem rlp.Element) {
	if len(enc) > 4096 || len(retained) >= 6000 {
		return
	}
	retained = append(retained, kept{what, enc, append([]byte{}, enc...), elem, cloneElem(elem)})
}

func verifyRetained(st *cv.Stats) {
	bad := 0
	for _, k := range retained {
		if !bytes.Equal(k.enc, k.encCopy) || !equalElem(k.elem, k.elemCopy) {
			bad++
			if bad <= 3 {
				st.ImplFailures = append(st.ImplFailures, map[string]interface{}{"what": "a result returned earlier by Encode/Decode changed after later calls", "case": k.what})
			}
		}
	}
	st.Extra["retained_results_reverified"] = len(retained)
}

// concurrentPass encodes and decodes the same trees from several goroutines at once and compares with
// the sequential results
func concurrentPass(st *cv.Stats, trees []*tree) {
	type res struct {
		enc []byte
		dec rlp.Element
		pos int
	}
	seq := make([]res, len(trees))
	for i, t := range trees {
		enc, _ := safeEncode(t.elem())
		d, pos, _, _ := safeDecode(enc)
		seq[i] = res{append([]byte{}, enc...), cloneElem(d), pos}
	}
	const workers = 8
	errs := make(chan string, workers)
	done := make(chan bool, workers)
	for g := 0; g < workers; g++ {
		go func(g int) {
			defer func() { done <- true }()
			for rep := 0; rep < 3; rep++ {
				for k := range trees {
					i := (k*7 + g*13 + rep) % len(trees)
					enc, p := safeEncode(trees[i].elem())
					d, pos, err, p2 := safeDecode(enc)
					if p || p2 || err != nil || !bytes.Equal(enc, seq[i].enc) || pos != seq[i].pos || !equalElem(d, seq[i].dec) {
						select {
						case errs <- trees[i].describe():
						default:
						}
						return
					}
				}
			}
		}(g)
	}
	for g := 0; g < workers; g++ {
		<-done
	}
	close(errs)
	for e := range errs {
		st.ImplFailures = append(st.ImplFailures, map[string]interface{}{"what": "Encode/Decode from concurrent goroutines differs from the sequential result", "tree": e})
	}
	st.Extra["concurrent_trees"] = len(trees)
}

func addEnc(w *cv.Writer, st *cv.Stats, t *tree, trail cv.DSL, seen map[string]bool) {
	e := t.elem()
	eCopy := cloneElem(e)
	enc, p := safeEncode(e)
	if !equalElem(e, eCopy) {
		st.ImplFailures = append(st.ImplFailures, map[string]string{"what": "Encode modified the element it was given", "tree": t.describe()})
	}
	if p {
		st.ImplFailures = append(st.ImplFailures, map[string]string{"what": "Encode panicked", "tree": t.describe()})
		return
	}
	if n := t.dataLen(); n <= 1<<16 {
		// the same tree with all its strings carved out of one arena (aliasing / spare-capacity inputs)
		ar := cv.NewArena(n + 64)
		ea := t.elemArena(ar)
		snap := ar.Snapshot()
		for rep := 0; rep < 2; rep++ {
			enc2, p2 := safeEncode(ea)
			if p2 || !bytes.Equal(enc2, enc) || !ar.Unchanged(snap) || !equalElem(ea, eCopy) {
				st.ImplFailures = append(st.ImplFailures, map[string]interface{}{"what": "Encode of a tree whose strings share one backing array (cap > len) differs from the encoding of the same tree with separately allocated strings, or wrote into its input", "tree": t.describe(), "repeat": rep})
				break
			}
		}
	}
	in := append(append([]byte{}, enc...), trail.Expand()...)
	d, pos, err, pan := safeDecode(in)
	cls := 0
	if pan {
		cls = 2
	} else if err != nil {
		cls = 1
	}
	same := cls == 0 && equalElem(d, e)
	retain(t.describe(), enc, d)
	if !same || pos != len(enc) {
		st.ImplFailures = append(st.ImplFailures, map[string]interface{}{"what": "Decode(Encode(t)++trail) did not return (t, len)", "tree": t.describe(), "trail": trail.Describe(), "class": cls, "pos": pos})
	}
	st.Hit(fmt.Sprintf("enc:depth=%d", t.depth()))
	st.Hit("enc:outlen=" + bucket(len(enc)))
	term := fmt.Sprintf("CEnc %s %s %s %d %v %d", t.coq(), trail.Coq(), outBytes(enc), cls, same, max0(pos))
	key := t.describe() + "|" + trail.Describe()
	if !seen[key] {
		seen[key] = true
		if t.list || len(enc) > 1 {
			st.Distinct++
		}
	}
	w.Add(term, desc{Kind: "encode", Input: t.describe(), Trail: trail.Describe(), Impl: fmt.Sprintf("enc=%s dec_class=%d same=%v pos=%d", cv.Compress(enc).Describe(), cls, same, pos)})
}

func max0(n int) int {
	if n < 0 {
		return 0
	}
	return n
}

func addDec(w *cv.Writer, st *cv.Stats, in cv.DSL, kind string, seen map[string]bool) {
	b := in.Expand()
	bCopy := append([]byte{}, b...)
	e, pos, err, pan := safeDecode(b)
	if !bytes.Equal(b, bCopy) {
		st.ImplFailures = append(st.ImplFailures, map[string]interface{}{"what": "Decode modified its input", "input": in.Describe()})
	}
	if len(b) <= 4096 && !pan && err == nil {
		retain("decode of "+in.Describe(), nil, e)
	}
	cls := 0
	if pan {
		cls = 2
	} else if err != nil {
		cls = 1
	}
	elem := "None"
	stable := true
	implDesc := ""
	if cls == 0 {
		if e != nil {
			tr := fromElem(e)
			elem = "(Some " + tr.coq() + ")"
			re, _ := safeEncode(e)
			d2, p2, err2, pan2 := safeDecode(re)
			stable = !pan2 && err2 == nil && equalElem(d2, e) && p2 == len(re)
			implDesc = fmt.Sprintf("ok pos=%d tree=%s stable=%v", pos, tr.describe(), stable)
		} else {
			implDesc = fmt.Sprintf("ok nil pos=%d", pos)
		}
		if pos > len(b) || !stable {
			st.ImplFailures = append(st.ImplFailures, map[string]interface{}{"what": "decode result out of bounds or unstable", "input": in.Describe(), "pos": pos, "stable": stable})
		}
	} else if cls == 1 {
		implDesc = "error: " + err.Error()
	} else {
		implDesc = "PANIC"
		st.ImplFailures = append(st.ImplFailures, map[string]interface{}{"what": "Decode panicked", "input": in.Describe()})
	}
	st.Hit(fmt.Sprintf("dec:%s:class=%d", kind, cls))
	key := hex.EncodeToString(b)
	if len(key) > 200 {
		l, a, s := cv.Cks(b)
		key = fmt.Sprintf("%d/%d/%d", l, a, s)
	}
	if !seen[key] {
		seen[key] = true
		if len(b) > 1 {
			st.Distinct++
		}
	}
	full := ""
	if len(b) <= 8192 {
		full = hex.EncodeToString(b)
	}
	w.Add(fmt.Sprintf("CDec %s %d %s %d %v", in.Coq(), cls, elem, max0(pos), stable),
		desc{Kind: "decode/" + kind, Input: in.Describe(), Full: full, Impl: implDesc})
}

// ----- length-only encoding cases (payloads of 2^16 .. 2^27 bytes) -----

// fillItems returns exactly n bytes that form a sequence of well-formed RLP items (one string element
// with the fitting header, not necessarily canonical), so that it can serve as a list payload.
func fillItems(n int, fill byte) cv.DSL {
	switch {
	case n <= 0:
		return cv.Lit(nil)
	case n == 1:
		return cv.Lit([]byte{0x05})
	case n <= 56:
		return cv.Cat(cv.Lit([]byte{0x80 + byte(n-1)}), cv.Rep(fill|0x80, n-1))
	case n <= 257:
		return cv.Cat(cv.Lit([]byte{0xb8, byte(n - 2)}), cv.Rep(fill, n-2))
	case n <= 65538:
		return cv.Cat(cv.Lit([]byte{0xb9, byte((n - 3) >> 8), byte(n - 3)}), cv.Rep(fill, n-3))
	default:
		m := n - 4
		return cv.Cat(cv.Lit([]byte{0xba, byte(m >> 16), byte(m >> 8), byte(m)}), cv.Rep(fill, m))
	}
}

// refHdrLen: number of bytes RLP puts in front of a payload of n bytes (n not a single-byte string)
func refHdrLen(n int) int {
	if n <= 55 {
		return 1
	}
	k := 0
	for v := n; v > 0; v >>= 8 {
		k++
	}
	return 1 + k
}

// addHdr encodes a real string (or a list whose payload is exactly n bytes) with pkg/rlp, checks on the
// Go side that the payload was copied unchanged behind the header and that Decode returns the element
// and the end position, and writes the header bytes + total length as a CHdr case: Rlp/Run.v compares
// them with Rlp/Header.v (proved to be the prefix of the model's / the Yellow Paper's output).
func addHdr(w *cv.Writer, st *cv.Stats, n int, isList bool, fill byte) {
	defer debug.FreeOSMemory()
	var e rlp.Element
	var payload []byte // expected payload for strings; for lists computed from the children
	what := fmt.Sprintf("string of %d bytes (byte i = 0x%02x + i>>3)", n, fill)
	if !isList {
		payload = make([]byte, n)
		for i := range payload {
			payload[i] = fill + byte(i>>3)
		}
		e = rlp.Data(payload)
	} else {
		// one big string child with the fitting header + single bytes filling the remainder
		m := n
		for m > 0 && m+refHdrLen(m) > n {
			m--
		}
		if m == 1 {
			m = 0
		}
		l := rlp.List{}
		rem := n
		if m > 1 {
			d := make([]byte, m)
			for i := range d {
				d[i] = fill + byte(i>>3)
			}
			l = append(l, rlp.Data(d))
			rem -= m + refHdrLen(m)
		}
		for ; rem > 0; rem-- {
			l = append(l, rlp.Data{byte(rem & 0x7f)})
		}
		e = l
		what = fmt.Sprintf("list [string of %d bytes, %d single bytes] (payload %d)", m, len(l)-1, n)
	}
	enc, pan := safeEncode(e)
	if pan {
		st.ImplFailures = append(st.ImplFailures, map[string]interface{}{"what": "Encode panicked", "tree": what})
		return
	}
	hl := len(enc) - n
	if hl < 0 {
		hl = len(enc)
	}
	if hl > 16 {
		hl = 16
	}
	hdr := append([]byte{}, enc[:hl]...)
	// Go-side oracles on the implementation alone: payload intact, Decode returns (t, len)
	if isList {
		for _, k := range e.(rlp.List) {
			payload = append(payload, k.Encode()...)
		}
	}
	if len(enc) < n || !bytes.Equal(enc[len(enc)-n:], payload) {
		st.ImplFailures = append(st.ImplFailures, map[string]interface{}{"what": "Encode did not copy the payload behind the header", "tree": what, "header": hex.EncodeToString(hdr), "total": len(enc)})
	}
	payload = nil
	d, pos, err, dp := safeDecode(enc)
	if dp || err != nil || pos != len(enc) || !equalElem(d, e) {
		st.ImplFailures = append(st.ImplFailures, map[string]interface{}{"what": "Decode(Encode(t)) did not return (t, len)", "tree": what, "header": hex.EncodeToString(hdr), "total": len(enc), "pos": pos, "panicked": dp, "error": err != nil})
	}
	st.Hit("hdr:payload=" + bucketBig(n))
	st.Distinct++
	kind := "false"
	if isList {
		kind = "true"
	}
	w.Add(fmt.Sprintf("CHdr %d %s %s %d", n, kind, cv.Lit(hdr).Coq(), len(enc)),
		desc{Kind: "encode-header", Input: what, Impl: fmt.Sprintf("header=%s total=%d", hex.EncodeToString(hdr), len(enc))})
}

func bucketBig(n int) string {
	switch {
	case n < 1<<16:
		return "<2^16"
	case n < 1<<24:
		return "2^16..2^24-1"
	case n == 1<<24:
		return "2^24"
	default:
		return ">2^24"
	}
}

// addLongLenDecodes: long-form headers with every length-of-length 1..8 and a single non-zero length
// byte at every position (so the length is v * 256^e, incl. non-minimal leading zeros), followed by
// payloads whose sizes sit on the lengths a wrong shift / byte order in minimalBytesToInt64 or a wrong
// position in extractLongLen would compute instead: the result class, the element or the returned
// position differs.  Payloads travel as DSL (rep), so 64 KiB cases stay cheap.
func addLongLenDecodes(w *cv.Writer, st *cv.Stats, r *cv.Rand, seen map[string]bool) {
	emit := func(base byte, lb []byte, size int, kind string) {
		hdr := append([]byte{base + byte(len(lb))}, lb...)
		var pl cv.DSL
		if base == 0xb7 {
			pl = cv.Rep(0x41+byte(r.Intn(20)), size)
		} else {
			pl = fillItems(size, 0x21+byte(r.Intn(20)))
		}
		addDec(w, st, cv.Cat(cv.Lit(hdr), pl), kind, seen)
	}
	for _, base := range []byte{0xb7, 0xf7} {
		for L := 1; L <= 8; L++ {
			for i := 0; i < L; i++ {
				vals := []byte{0x01, 0xff}
				if i == 0 {
					vals = append(vals, 0x80, 0x7f)
				}
				for _, val := range vals {
					lb := make([]byte, L)
					lb[i] = val
					sizes := map[int]bool{0: true}
					for e := 0; e <= 2; e++ {
						s := int(val) << (8 * e)
						if s <= 66000 {
							sizes[s-1], sizes[s] = true, true
							if e == L-1-i {
								sizes[s+1] = true
							}
						}
					}
					var ordered []int
					for s := 0; s <= 66001; s++ {
						if sizes[s] {
							ordered = append(ordered, s)
						}
					}
					for _, s := range ordered {
						emit(base, lb, s, fmt.Sprintf("longlen:L=%d", L))
					}
				}
			}
		}
		// all length bytes distinct (byte order), exact fit and the reversed-order value
		for _, lb := range [][]byte{{0x01, 0x02}, {0x02, 0x01}, {0x00, 0x01, 0x02}, {0x01, 0x00, 0x02}, {0x01, 0x02, 0x03}, {0x00, 0x00, 0x01, 0x02, 0x03},
			{0x00, 0x00, 0x00, 0x00, 0x00, 0x01, 0x00, 0x04}, {0x00, 0x00, 0x00, 0x00, 0x00, 0x01, 0x00, 0x00}} {
			v := 0
			for _, b := range lb {
				v = v<<8 | int(b)
			}
			rv := 0
			for j := len(lb) - 1; j >= 0; j-- {
				rv = rv<<8 | int(lb[j])
			}
			for _, s := range []int{v, v - 1, rv} {
				if s >= 0 && s <= 70000 {
					emit(base, lb, s, "longlen:mixed")
				}
			}
		}
	}
}

// ----- rlp.go helpers (WrapInt / WrapAddress / Data.Int / IntOrZero / BytesNotNil / Address / ToData) -----

func optDSL(b []byte, isNil bool) string {
	if isNil {
		return "None"
	}
	return "(Some " + cv.Compress(b).Coq() + ")"
}

func addHelpers(w *cv.Writer, st *cv.Stats, r *cv.Rand, thorough bool) {
	guard := func(what string, f func()) {
		defer func() {
			if x := recover(); x != nil {
				st.ImplFailures = append(st.ImplFailures, map[string]interface{}{"what": "rlp.go helper panicked", "helper": what, "panic": fmt.Sprint(x)})
			}
		}()
		f()
	}
	// integers: 0, 1, 0x7f, 0x80, 2^8k-1, 2^8k, 2^8k+1 (k = 1..33), random widths
	var ints []*big.Int
	for _, v := range []int64{0, 1, 2, 0x7f, 0x80, 0xff} {
		ints = append(ints, big.NewInt(v))
	}
	for k := 1; k <= 33; k++ {
		p := new(big.Int).Lsh(big.NewInt(1), uint(8*k))
		ints = append(ints, new(big.Int).Sub(p, big.NewInt(1)), p, new(big.Int).Add(p, big.NewInt(1)))
	}
	nr := 40
	if thorough {
		nr = 2000
	}
	for i := 0; i < nr; i++ {
		ints = append(ints, new(big.Int).SetBytes(r.Bytes(1+r.Intn(40))))
	}
	// negative integers (referee issue I6): WrapInt takes big.Int.Bytes(), i.e. the magnitude; the model of
	// that is WrapIntZ z = WrapInt |z| (Rlp/Strict.v, C06_wrapint_sign_is_dropped).  The case carries |n|, so
	// the existing CWrapInt judgement says: the data is BE |n| and Int() returns |n|.
	nPos := len(ints)
	for _, v := range []int64{-1, -2, -0x7f, -0x80, -0xff, -0x100} {
		ints = append(ints, big.NewInt(v))
	}
	for _, k := range []uint{63, 64, 255, 256} {
		ints = append(ints, new(big.Int).Neg(new(big.Int).Lsh(big.NewInt(1), k)))
	}
	for i := 0; i < 8; i++ {
		ints = append(ints, new(big.Int).Neg(new(big.Int).SetBytes(r.Bytes(1+r.Intn(40)))))
	}
	for i, n := range ints {
		n := n
		kind := "helper/WrapInt"
		if i >= nPos {
			kind = "helper/WrapInt-negative"
		}
		guard("WrapInt", func() {
			d := rlp.WrapInt(n)
			back := d.Int()
			bs := "None"
			if back != nil {
				bs = fmt.Sprintf("(Some %s)", back.String())
			}
			st.Hit(fmt.Sprintf("help:WrapInt:bytes=%s", bucket(len(d))))
			if n.Sign() < 0 {
				st.Hit("help:WrapInt:negative")
			}
			st.Distinct++
			w.Add(fmt.Sprintf("CWrapInt %s %s %s", new(big.Int).Abs(n).String(), cv.Lit(d).Coq(), bs),
				desc{Kind: kind, Input: n.String(), Impl: fmt.Sprintf("data=%s int=%s", hex.EncodeToString(d), bs)})
		})
	}
	// Data values: nil, empty, around 20 bytes, leading zeros, long
	type dcase struct {
		b     []byte
		isNil bool
	}
	dcs := []dcase{{nil, true}, {[]byte{}, false}, {[]byte{0}, false}, {[]byte{0, 0, 1}, false}, {[]byte{0x80}, false}}
	for _, l := range []int{1, 2, 8, 19, 20, 20, 20, 21, 32, 33, 40, 64, 300} {
		dcs = append(dcs, dcase{r.Bytes(l), false})
	}
	dcs = append(dcs, dcase{make([]byte, 20), false}, dcase{bytes.Repeat([]byte{0xff}, 20), false}, dcase{append([]byte{0}, r.Bytes(19)...), false}, dcase{make([]byte, 70000), false})
	for i := 0; i < nr; i++ {
		dcs = append(dcs, dcase{r.Bytes([]int{19, 20, 21, r.Intn(50)}[r.Intn(4)]), false})
	}
	for _, dc := range dcs {
		dc := dc
		guard("Data accessors", func() {
			var d rlp.Data
			if !dc.isNil {
				d = rlp.Data(append([]byte{}, dc.b...))
			}
			i, iz, bnn, a := d.Int(), d.IntOrZero(), d.BytesNotNil(), d.Address()
			is := "None"
			if i != nil {
				is = fmt.Sprintf("(Some %s)", i.String())
			}
			if iz == nil || bnn == nil {
				st.ImplFailures = append(st.ImplFailures, map[string]interface{}{"what": "IntOrZero / BytesNotNil returned nil", "data": hex.EncodeToString(dc.b), "nil": dc.isNil})
				return
			}
			var ab []byte
			if a != nil {
				ab = a[:]
			}
			st.Hit(fmt.Sprintf("help:Data:len=%s:addr=%v", bucket(len(dc.b)), a != nil))
			st.Distinct++
			w.Add(fmt.Sprintf("CData %s %s %s %s %s", optDSL(dc.b, dc.isNil), is, iz.String(), cv.Compress(bnn).Coq(), optDSL(ab, a == nil)),
				desc{Kind: "helper/Data", Input: cv.Compress(dc.b).Describe(), Impl: fmt.Sprintf("nil=%v int=%s intOrZero=%s address=%s", dc.isNil, is, iz, hex.EncodeToString(ab))})
			// the accessors must not modify the data
			if !dc.isNil && !bytes.Equal([]byte(d), dc.b) {
				st.ImplFailures = append(st.ImplFailures, map[string]interface{}{"what": "a Data accessor modified the data", "data": hex.EncodeToString(dc.b)})
			}
		})
	}
	// WrapAddress: nil pointer, zero, 0xff.., leading zero, random
	addrs := [][]byte{nil, make([]byte, 20), bytes.Repeat([]byte{0xff}, 20), append([]byte{0}, r.Bytes(19)...)}
	for i := 0; i < 6; i++ {
		addrs = append(addrs, r.Bytes(20))
	}
	for _, ab := range addrs {
		ab := ab
		guard("WrapAddress", func() {
			var a *ethtypes.Address0xHex
			if ab != nil {
				a = new(ethtypes.Address0xHex)
				copy(a[:], ab)
			}
			d := rlp.WrapAddress(a)
			st.Hit(fmt.Sprintf("help:WrapAddress:nil=%v", ab == nil))
			st.Distinct++
			w.Add(fmt.Sprintf("CWrapAddr %s %s", optDSL(ab, ab == nil), cv.Lit(d).Coq()),
				desc{Kind: "helper/WrapAddress", Input: hex.EncodeToString(ab), Impl: hex.EncodeToString(d)})
		})
	}
	// Element.ToData(): strings give themselves, lists nil Data
	for i := 0; i < 24; i++ {
		t := genTree(r, st, r.Intn(3), false)
		guard("ToData", func() {
			d := t.elem().ToData()
			st.Hit(fmt.Sprintf("help:ToData:list=%v", t.list))
			w.Add(fmt.Sprintf("CToData %s %s", t.coq(), optDSL(d, d == nil)),
				desc{Kind: "helper/ToData", Input: t.describe(), Impl: fmt.Sprintf("nil=%v %s", d == nil, cv.Compress(d).Describe())})
		})
	}
	// WrapString / WrapHex / MustWrapHex are not part of the model: plain Go-side oracles
	for i := 0; i < 12; i++ {
		b := r.Bytes([]int{0, 1, 2, 20, 55, 56}[r.Intn(6)])
		guard("WrapString/WrapHex", func() {
			st.Hit("help:WrapString/WrapHex")
			if !bytes.Equal(rlp.WrapString(string(b)), b) {
				st.ImplFailures = append(st.ImplFailures, map[string]interface{}{"what": "WrapString(s) is not the bytes of s", "input": hex.EncodeToString(b)})
			}
			for _, pfx := range []string{"", "0x"} {
				d, err := rlp.WrapHex(pfx + hex.EncodeToString(b))
				if err != nil || !bytes.Equal(d, b) || !bytes.Equal(rlp.MustWrapHex(pfx+hex.EncodeToString(b)), b) {
					st.ImplFailures = append(st.ImplFailures, map[string]interface{}{"what": "WrapHex/MustWrapHex of a valid hex string is not its bytes", "input": pfx + hex.EncodeToString(b)})
				}
			}
		})
	}
	for _, bad := range []string{"0", "0x0", "zz", "0x0g", "0x 00"} {
		if d, err := rlp.WrapHex(bad); err == nil {
			st.ImplFailures = append(st.ImplFailures, map[string]interface{}{"what": "WrapHex accepted an invalid hex string", "input": bad, "output": hex.EncodeToString(d)})
		}
		panicked := false
		func() {
			defer func() { panicked = recover() != nil }()
			rlp.MustWrapHex(bad)
		}()
		if !panicked {
			st.ImplFailures = append(st.ImplFailures, map[string]interface{}{"what": "MustWrapHex did not panic on an invalid hex string", "input": bad})
		}
	}
}

// ----- sweep digest, mirrors Rlp/Run.v -----
func serN4(n int) []byte { return []byte{byte(n >> 24), byte(n >> 16), byte(n >> 8), byte(n)} }
func serItem(e rlp.Element) []byte {
	if !e.IsList() {
		d := []byte(e.(rlp.Data))
		return append(append([]byte{0x53}, serN4(len(d))...), d...)
	}
	l := e.(rlp.List)
	out := append([]byte{0x4c}, serN4(len(l))...)
	for _, k := range l {
		out = append(out, serItem(k)...)
	}
	return out
}
func serOutcome(in []byte) []byte {
	e, pos, err, pan := safeDecode(in)
	switch {
	case pan:
		return []byte{2}
	case err != nil:
		return []byte{1}
	case e == nil:
		return append([]byte{3}, serN4(pos)...)
	default:
		return append(append([]byte{0}, serN4(pos)...), serItem(e)...)
	}
}
func mix(acc uint64, l []byte) uint64 {
	n, a, b := cv.Cks(l)
	p := cv.CksP
	v := mulmodp(acc, 1000003)
	v = (v + mulmodp(n, 65537)) % p
	v = (v + mulmodp(a, 257)) % p
	v = (v + b%p + 1) % p
	return v
}
func mulmodp(a, b uint64) uint64 {
	// a < 2^61, b small
	var res uint64
	a %= cv.CksP
	for b > 0 {
		if b&1 == 1 {
			res = (res + a) % cv.CksP
		}
		a = (a * 2) % cv.CksP
		b >>= 1
	}
	return res
}
func blockDigest(k int, prefix []byte, count *int, panics *[]string) uint64 {
	var acc uint64
	var rec func(k int, cur []byte)
	rec = func(k int, cur []byte) {
		if k == 0 {
			o := serOutcome(cur)
			if len(o) == 1 && o[0] == 2 && len(*panics) < 5 {
				*panics = append(*panics, hex.EncodeToString(cur))
			}
			acc = mix(acc, o)
			*count++
			return
		}
		for b := 0; b < 256; b++ {
			rec(k-1, append(append([]byte{}, cur...), byte(b)))
		}
	}
	rec(k, prefix)
	return acc
}

func main() {
	out := flag.String("out", "", "output directory")
	tier := flag.String("tier", "quick", "quick|thorough")
	replay := flag.String("replay", "", "replay file")
	flag.Parse()
	if *out == "" {
		fmt.Fprintln(os.Stderr, "need -out")
		os.Exit(2)
	}
	os.MkdirAll(*out, 0o755)
	header := "From Coq Require Import String List NArith Uint63.\nFrom FFS Require Import Base.Bytes Base.Lit Rlp.Run.\nImport ListNotations.\nOpen Scope string_scope. Open Scope N_scope."
	st := cv.NewStats()
	seen := map[string]bool{}
	w := cv.NewWriter(*out, "C06", header, "case", "mismatches", 16)

	if *replay != "" {
		raw, err := os.ReadFile(*replay)
		if err != nil {
			panic(err)
		}
		var rp struct {
			Case desc `json:"case"`
		}
		json.Unmarshal(raw, &rp)
		if rp.Case.Full == "" {
			fmt.Println("replay: case has no literal input recorded (large DSL input); description:", rp.Case.Input)
			os.Exit(0)
		}
		b, _ := hex.DecodeString(rp.Case.Full)
		w.Shards = 1
		w = cv.NewWriter(*out, "C06", header, "case", "mismatches", 1)
		addDec(w, st, cv.Lit(b), "replay", seen)
		w.Flush()
		fmt.Println("implementation:", st.Distribution)
		st.Evaluations = 1
		st.Write(filepath.Join(*out, "stats_C06.json"))
		return
	}

	thorough := *tier == "thorough"
	r := cv.NewRand(6)

	// --- regression/boundary corpus first: every threshold as a bare string and as a list payload ---
	for _, n := range []int{0, 1, 2, 54, 55, 56, 57, 255, 256, 257, 65535, 65536} {
		addEnc(w, st, &tree{data: cv.Rep(0x62, n)}, cv.Lit(nil), seen)
		addEnc(w, st, &tree{data: cv.Rep(0x62, n)}, cv.Lit([]byte{0xc0, 0x01}), seen)
		addEnc(w, st, payloadTree(r, n), cv.Lit(nil), seen)
		addEnc(w, st, payloadTree(r, n), cv.Lit([]byte{0xff}), seen)
	}
	for b := 0; b < 256; b += 1 {
		if b < 4 || (b > 0x7c && b < 0x84) || b > 0xfc {
			addEnc(w, st, &tree{data: cv.Lit([]byte{byte(b)})}, cv.Lit(nil), seen)
		}
	}
	// memory-hungry cases go to their own files ("_big": ./check evaluates those two at a time)
	wbig := cv.NewWriter(*out, "C06_big", header, "case", "mismatches", 8)
	if thorough {
		for _, n := range []int{1 << 24, 1<<24 + 1, 1<<20 + 7} {
			addEnc(wbig, st, &tree{data: cv.Rep(0x63, n)}, cv.Lit([]byte{0x01}), seen)
			addEnc(wbig, st, &tree{list: true, kids: []*tree{{data: cv.Rep(0x63, n)}, {data: cv.Lit([]byte{0x80})}}}, cv.Lit(nil), seen)
		}
	}
	// deep nesting (depth 8) with payload crossing 55/56
	{
		t := &tree{data: cv.Rep(0x64, 50)}
		for i := 0; i < 8; i++ {
			t = &tree{list: true, kids: []*tree{t}}
			addEnc(w, st, t, cv.Lit(nil), seen)
		}
	}
	// --- random trees ---
	nTrees := 350
	if thorough {
		nTrees = 6000
	}
	var encodings [][]byte
	var conc []*tree
	for i := 0; i < nTrees; i++ {
		t := genTree(r, st, 1+r.Intn(8), i%12 == 0)
		if len(conc) < 120 && i%12 != 0 {
			conc = append(conc, t)
		}
		var trail cv.DSL
		switch r.Intn(4) {
		case 0:
			trail = cv.Lit(nil)
		case 1:
			trail = cv.Lit(r.Bytes(1 + r.Intn(5)))
		case 2:
			trail = cv.Lit([]byte{0xb8})
		default:
			trail = cv.Rep(r.Byte(), 1+r.Intn(100))
		}
		addEnc(w, st, t, trail, seen)
		if enc, p := safeEncode(t.elem()); !p && len(enc) <= 2048 {
			encodings = append(encodings, enc)
		}
	}

	// --- decoder: structure-aware mutations of valid encodings ---
	nMut := 1400
	if thorough {
		nMut = 40000
	}
	for i := 0; i < nMut && len(encodings) > 0; i++ {
		enc := append([]byte{}, encodings[r.Intn(len(encodings))]...)
		kind := ""
		switch r.Intn(8) {
		case 0: // length byte +-1
			kind = "hdr+-1"
			if r.Bool() {
				enc[0]++
			} else {
				enc[0]--
			}
		case 1: // truncate
			kind = "truncate"
			if len(enc) > 0 {
				k := r.Intn(len(enc))
				if len(enc) > 64 && r.Bool() {
					k = r.Intn(64)
				}
				enc = enc[:k]
			}
		case 2: // swap string<->list prefix
			kind = "swap-kind"
			if enc[0] >= 0x80 && enc[0] < 0xc0 {
				enc[0] += 0x40
			} else if enc[0] >= 0xc0 {
				enc[0] -= 0x40
			}
		case 3: // non-canonical long form of the same payload (leading zero in the length, or long form for short)
			kind = "noncanonical-long"
			e, _, err, _ := safeDecode(enc)
			if err == nil && e != nil {
				var payload []byte
				base := byte(0xb7)
				if e.IsList() {
					base = 0xf7
					for _, k := range e.(rlp.List) {
						payload = append(payload, k.Encode()...)
					}
				} else {
					payload = []byte(e.(rlp.Data))
				}
				lol := 1 + r.Intn(8)
				lb := make([]byte, lol)
				n := len(payload)
				for j := lol - 1; j >= 0; j-- {
					lb[j] = byte(n)
					n >>= 8
				}
				enc = append(append([]byte{base + byte(lol)}, lb...), payload...)
			}
		case 4: // huge declared length
			kind = "huge-len"
			lol := 1 + r.Intn(8)
			lb := r.Bytes(lol)
			if r.Bool() {
				lb[0] |= 0x80
			}
			base := byte(0xb7)
			if r.Bool() {
				base = 0xf7
			}
			enc = append(append([]byte{base + byte(lol)}, lb...), enc...)
		case 5: // random byte flip somewhere
			kind = "flip"
			if len(enc) > 0 {
				enc[r.Intn(len(enc))] = r.Byte()
			}
		case 6: // length exactly at maxInt32 boundary
			kind = "maxint32"
			v := uint32(0x7fffffff)
			if r.Bool() {
				v = 0x80000000
			}
			base := byte(0xb7)
			if r.Bool() {
				base = 0xf7
			}
			enc = append([]byte{base + 4, byte(v >> 24), byte(v >> 16), byte(v >> 8), byte(v)}, enc...)
		default: // wrap in a list with a wrong payload length
			kind = "wrap-wrong-len"
			n := len(enc) + r.Intn(5) - 2
			if n < 0 {
				n = 0
			}
			if n <= 55 {
				enc = append([]byte{0xc0 + byte(n)}, enc...)
			} else {
				enc = append([]byte{0xf8, byte(n)}, enc...)
			}
		}
		addDec(w, st, cv.Lit(enc), kind, seen)
	}
	// --- decoder: long-form elements nested at offset k > 0 of a list whose declared length overruns
	// the enclosing list by d bytes (d <= k and d > k), with nothing / enough bytes after the list:
	// the length guards of extractLongLen must be relative to the position inside the slice being
	// decoded, not to its start ---
	for _, k := range []int{1, 2, 3, 5, 9, 60} {
		for d := -1; d <= 4; d++ {
			for form := 0; form < 4; form++ {
				inner := 56 + r.Intn(3)
				if form%2 == 1 {
					inner = 256 + r.Intn(3)
				}
				declared := inner + d
				var hdr []byte
				base := byte(0xb7)
				if form >= 2 {
					base = 0xf7
				}
				if declared < 256 {
					hdr = []byte{base + 1, byte(declared)}
				} else {
					hdr = []byte{base + 2, byte(declared >> 8), byte(declared)}
				}
				if form%2 == 1 && declared < 256 {
					continue
				}
				payload := make([]byte, 0, k+len(hdr)+inner)
				for i := 0; i < k; i++ {
					payload = append(payload, byte(1+r.Intn(0x7e)))
				}
				payload = append(payload, hdr...)
				body := make([]byte, inner)
				for i := range body {
					body[i] = byte(r.Intn(0x80)) // single-byte items, so a list body is well formed too
				}
				payload = append(payload, body...)
				var outer []byte
				n := len(payload)
				if n <= 55 {
					outer = []byte{0xc0 + byte(n)}
				} else if n < 256 {
					outer = []byte{0xf8, byte(n)}
				} else {
					outer = []byte{0xf9, byte(n >> 8), byte(n)}
				}
				enc := append(outer, payload...)
				addDec(w, st, cv.Lit(enc), "nested-long-overrun", seen)
				addDec(w, st, cv.Lit(append(append([]byte{}, enc...), 0x01, 0x02, 0x03, 0x04, 0x05)), "nested-long-overrun+trail", seen)
				// the same element one level deeper
				deep := append([]byte{0xf9, byte((len(enc) + 1) >> 8), byte(len(enc) + 1), 0x05}, enc...)
				addDec(w, st, cv.Lit(deep), "nested-long-overrun-deep", seen)
			}
		}
	}
	// truncated long-form headers nested at an offset (length-of-length bytes cut by the list end)
	for _, k := range []int{1, 2, 4} {
		for lol := 1; lol <= 8; lol++ {
			for cut := 0; cut < lol; cut++ {
				payload := make([]byte, 0, 16)
				for i := 0; i < k; i++ {
					payload = append(payload, byte(1+r.Intn(0x7e)))
				}
				payload = append(payload, 0xb7+byte(lol))
				for i := 0; i < cut; i++ {
					payload = append(payload, 0x00)
				}
				enc := append([]byte{0xc0 + byte(len(payload))}, payload...)
				addDec(w, st, cv.Lit(enc), "nested-long-hdr-cut", seen)
				addDec(w, st, cv.Lit(append(append([]byte{}, enc...), 0x00, 0x00, 0x00, 0x00, 0x00, 0x00, 0x00, 0x38)), "nested-long-hdr-cut+trail", seen)
			}
		}
	}
	// --- decoder: long-form length bytes at every position / length-of-length, DSL payloads ---
	addLongLenDecodes(w, st, r, seen)
	// --- decoder: random bytes ---
	nRand := 300
	maxLen := 4096
	if thorough {
		nRand = 6000
	}
	for i := 0; i < nRand; i++ {
		n := r.Intn(40)
		if i%10 == 0 {
			n = r.Intn(maxLen)
		}
		b := r.Bytes(n)
		if n > 0 && r.Bool() {
			b[0] = []byte{0xb8, 0xb9, 0xbf, 0xc1, 0xf7, 0xf8, 0xf9, 0xff, 0x80, 0x81, 0xb7}[r.Intn(11)]
		}
		addDec(w, st, cv.Lit(b), "random", seen)
	}
	if thorough {
		// 1 MiB inputs through the DSL: long string header + repeated payload, correct and off by one
		for _, n := range []int{1 << 20, 1<<20 - 1} {
			hdr := []byte{0xba, 0x10, 0x00, 0x00}
			addDec(wbig, st, cv.Cat(cv.Lit(hdr), cv.Rep(0x41, n)), "dsl-1MiB", seen)
		}
	}
	addDec(w, st, cv.Lit(nil), "empty", seen)
	addHelpers(w, st, r, thorough)
	concurrentPass(st, conc)
	// --- encoder: real payloads around every length-of-length step up to 2^27 bytes, judged through the
	// length-only header evaluator (Rlp/Header.v) ---
	hdrSizes := []int{0, 2, 55, 56, 255, 256, 65535, 65536, 65537, 1<<24 - 1, 1 << 24, 1<<24 + 1, 1<<24 + 12345, 1 << 25, 1<<26 + 3, 1 << 27}
	if thorough {
		// every remaining bit of the fourth length byte (1 GiB payload: about 3 GiB of memory for a moment)
		hdrSizes = append(hdrSizes, 1<<28+1, 1<<29+(1<<27), 1<<30)
	}
	for _, n := range hdrSizes {
		addHdr(w, st, n, false, byte(0x30+r.Intn(64)))
		addHdr(w, st, n, true, byte(0x30+r.Intn(64)))
	}
	verifyRetained(st)
	retained = nil
	if err := w.Flush(); err != nil {
		panic(err)
	}
	if err := wbig.Flush(); err != nil {
		panic(err)
	}

	// --- exhaustive sweep: every input of length <= 2 (quick), <= 3 (thorough) ---
	var blocks []string
	count := 0
	var panics []string
	blocks = append(blocks, fmt.Sprintf("(BLit \"\", 0%%nat, %d)", blockDigest(0, nil, &count, &panics)))
	blocks = append(blocks, fmt.Sprintf("(BLit \"\", 1%%nat, %d)", blockDigest(1, nil, &count, &panics)))
	for b := 0; b < 256; b++ {
		blocks = append(blocks, fmt.Sprintf("(BLit \"%02x\", 1%%nat, %d)", b, blockDigest(1, []byte{byte(b)}, &count, &panics)))
	}
	sweepShards := 4
	if thorough {
		sweepShards = 16
		for b := 0; b < 256; b++ {
			blocks = append(blocks, fmt.Sprintf("(BLit \"%02x\", 2%%nat, %d)", b, blockDigest(2, []byte{byte(b)}, &count, &panics)))
		}
	}
	for _, p := range panics {
		st.ImplFailures = append(st.ImplFailures, map[string]interface{}{"what": "Decode panicked", "input": p})
	}
	for k := 0; k < sweepShards; k++ {
		var mine []string
		for i, b := range blocks {
			if i%sweepShards == k {
				mine = append(mine, b)
			}
		}
		f, _ := os.Create(filepath.Join(*out, fmt.Sprintf("sweep_C06_%d.v", k)))
		fmt.Fprintln(f, header)
		fmt.Fprintf(f, "Definition blocks : list (bdsl * nat * N) := [\n  %s\n].\n", strings.Join(mine, ";\n  "))
		fmt.Fprintln(f, "Definition M := Eval vm_compute in (sweep_mismatches blocks).\nPrint M.")
		f.Close()
	}
	st.Extra["sweep_inputs"] = count
	st.Extra["sweep_max_len"] = map[bool]int{false: 2, true: 3}[thorough]
	st.Extra["sweep_blocks"] = len(blocks)
	st.Exhaustive = true
	st.Evaluations = w.Count() + wbig.Count() + count
	st.Distinct += count - 257 // every sweep input is distinct; inputs of length <= 1 counted as trivial
	st.Rule = "trees from a shape grammar (depth<=8, string lengths at the RLP thresholds 0,1,55,56,255,256,65535,65536 and random, list payloads forced across the same thresholds) encoded and decoded back with trailing bytes; decoder inputs = structure-aware mutations of valid encodings + random bytes + every byte string of length <= sweep_max_len (exhaustive, compared per block digest). distinct = distinct (tree,trail) or input bytes; non-trivial = more than one byte of input or output"
	st.Samples = append(st.Samples, "CEnc (DLst [DStr (BRep 98 56)]) ...", "CDec (BLit \"b90001ff\") ...")
	if err := st.Write(filepath.Join(*out, "stats_C06.json")); err != nil {
		panic(err)
	}
}
