// Harness for C06 (RLP codec).  Generates trees and decoder inputs, runs pkg/rlp on them under
// recover(), and writes Coq case files that Rlp/Run.v evaluates against the model and the
// Yellow-Paper spec.
package main

import (
	"bytes"
	"encoding/hex"
	"encoding/json"
	"flag"
	"fmt"
	"os"
	"path/filepath"
	"strings"

	"github.com/hyperledger/firefly-signer/pkg/rlp"
	"verifharness/cv"
)

type tree struct {
	list bool
	data cv.DSL
	kids []*tree
}

func (t *tree) coq() string {
	if !t.list {
		return "(DStr " + t.data.Coq() + ")"
	}
	parts := make([]string, len(t.kids))
	for i, k := range t.kids {
		parts[i] = k.coq()
	}
	return "(DLst [" + strings.Join(parts, "; ") + "])"
}
func (t *tree) describe() string {
	if !t.list {
		return `"` + t.data.Describe() + `"`
	}
	parts := make([]string, len(t.kids))
	for i, k := range t.kids {
		parts[i] = k.describe()
	}
	return "[" + strings.Join(parts, ",") + "]"
}
func (t *tree) elem() rlp.Element {
	if !t.list {
		return rlp.Data(t.data.Expand())
	}
	l := make(rlp.List, len(t.kids))
	for i, k := range t.kids {
		l[i] = k.elem()
	}
	return l
}
func (t *tree) depth() int {
	d := 0
	for _, k := range t.kids {
		if kd := k.depth(); kd > d {
			d = kd
		}
	}
	if t.list {
		return d + 1
	}
	return 0
}

func fromElem(e rlp.Element) *tree {
	if e == nil {
		return nil
	}
	if !e.IsList() {
		return &tree{data: cv.Compress([]byte(e.(rlp.Data)))}
	}
	t := &tree{list: true}
	for _, k := range e.(rlp.List) {
		t.kids = append(t.kids, fromElem(k))
	}
	return t
}

func equalElem(a, b rlp.Element) bool {
	if a == nil || b == nil {
		return a == nil && b == nil
	}
	if a.IsList() != b.IsList() {
		return false
	}
	if !a.IsList() {
		return bytes.Equal([]byte(a.(rlp.Data)), []byte(b.(rlp.Data)))
	}
	la, lb := a.(rlp.List), b.(rlp.List)
	if len(la) != len(lb) {
		return false
	}
	for i := range la {
		if !equalElem(la[i], lb[i]) {
			return false
		}
	}
	return true
}

var thresholds = []int{0, 1, 1, 2, 3, 20, 32, 54, 55, 56, 57, 100, 255, 256, 257, 1000}
var bigThresholds = []int{65535, 65536, 65537}

func genString(r *cv.Rand, st *cv.Stats, allowBig bool) cv.DSL {
	var n int
	switch c := r.Intn(10); {
	case c < 6:
		n = r.Pick(thresholds)
	case c < 9:
		n = r.Intn(70)
	default:
		if allowBig {
			n = r.Pick(bigThresholds)
		} else {
			n = 56 + r.Intn(300)
		}
	}
	st.Hit(fmt.Sprintf("strlen:%s", bucket(n)))
	if n == 1 {
		// both sides of the single-byte rule
		b := []byte{0x00, 0x01, 0x7f, 0x80, 0x81, 0xff}[r.Intn(6)]
		if r.Intn(3) == 0 {
			b = r.Byte()
		}
		if b < 0x80 {
			st.Hit("single<0x80")
		} else {
			st.Hit("single>=0x80")
		}
		return cv.Lit([]byte{b})
	}
	if n > 300 || r.Intn(4) == 0 {
		return cv.Rep(r.Byte(), n)
	}
	return cv.Lit(r.Bytes(n))
}

func bucket(n int) string {
	switch {
	case n == 0:
		return "0"
	case n == 1:
		return "1"
	case n < 55:
		return "2..54"
	case n == 55:
		return "55"
	case n == 56:
		return "56"
	case n < 255:
		return "57..254"
	case n == 255:
		return "255"
	case n == 256:
		return "256"
	case n < 65535:
		return "257..65534"
	case n == 65535:
		return "65535"
	case n == 65536:
		return "65536"
	default:
		return ">65536"
	}
}

func genTree(r *cv.Rand, st *cv.Stats, depth int, allowBig bool) *tree {
	if depth == 0 || r.Intn(3) == 0 {
		return &tree{data: genString(r, st, allowBig)}
	}
	t := &tree{list: true}
	n := []int{0, 1, 1, 2, 2, 3, 4}[r.Intn(7)]
	for i := 0; i < n; i++ {
		t.kids = append(t.kids, genTree(r, st, depth-1, false))
	}
	return t
}

// payloadTree builds a list whose payload length is exactly n (n >= 0) out of single-byte strings
// and one filler string, so list payloads cross the same thresholds as strings.
func payloadTree(r *cv.Rand, n int) *tree {
	t := &tree{list: true}
	rem := n
	for rem > 0 {
		switch {
		case rem >= 3 && r.Intn(2) == 0:
			k := rem - 1
			if k > 55 {
				k = 55
			}
			if k >= 2 {
				t.kids = append(t.kids, &tree{data: cv.Rep(0x61, k)}) // 1+k bytes
				rem -= 1 + k
				continue
			}
			fallthrough
		default:
			t.kids = append(t.kids, &tree{data: cv.Lit([]byte{byte(r.Intn(0x80))})})
			rem--
		}
	}
	return t
}

type desc struct {
	Kind  string `json:"kind"`
	Input string `json:"input"`
	Full  string `json:"full_hex,omitempty"`
	Trail string `json:"trail,omitempty"`
	Impl  string `json:"impl"`
}

func outBytes(b []byte) string {
	if len(b) <= 4096 {
		return "(OLit " + cv.Lit(b).Coq() + ")"
	}
	l, a, s := cv.Cks(b)
	return fmt.Sprintf("(OCks %d %d %d)", l, a, s)
}

func safeDecode(in []byte) (e rlp.Element, pos int, err error, panicked bool) {
	defer func() {
		if x := recover(); x != nil {
			panicked = true
		}
	}()
	e, pos, err = rlp.Decode(in)
	return
}

func safeEncode(e rlp.Element) (out []byte, panicked bool) {
	defer func() {
		if x := recover(); x != nil {
			panicked = true
		}
	}()
	return e.Encode(), false
}

func addEnc(w *cv.Writer, st *cv.Stats, t *tree, trail cv.DSL, seen map[string]bool) {
	e := t.elem()
	enc, p := safeEncode(e)
	if p {
		st.ImplFailures = append(st.ImplFailures, map[string]string{"what": "Encode panicked", "tree": t.describe()})
		return
	}
	in := append(append([]byte{}, enc...), trail.Expand()...)
	d, pos, err, pan := safeDecode(in)
	cls := 0
	if pan {
		cls = 2
	} else if err != nil {
		cls = 1
	}
	same := cls == 0 && equalElem(d, e)
	if !same || pos != len(enc) {
		st.ImplFailures = append(st.ImplFailures, map[string]interface{}{"what": "Decode(Encode(t)++trail) did not return (t, len)", "tree": t.describe(), "trail": trail.Describe(), "class": cls, "pos": pos})
	}
	st.Hit(fmt.Sprintf("enc:depth=%d", t.depth()))
	st.Hit("enc:outlen=" + bucket(len(enc)))
	term := fmt.Sprintf("CEnc %s %s %s %d %v %d", t.coq(), trail.Coq(), outBytes(enc), cls, same, max0(pos))
	key := t.describe() + "|" + trail.Describe()
	if !seen[key] {
		seen[key] = true
		if t.list || len(enc) > 1 {
			st.Distinct++
		}
	}
	w.Add(term, desc{Kind: "encode", Input: t.describe(), Trail: trail.Describe(), Impl: fmt.Sprintf("enc=%s dec_class=%d same=%v pos=%d", cv.Compress(enc).Describe(), cls, same, pos)})
}

func max0(n int) int {
	if n < 0 {
		return 0
	}
	return n
}

func addDec(w *cv.Writer, st *cv.Stats, in cv.DSL, kind string, seen map[string]bool) {
	b := in.Expand()
	e, pos, err, pan := safeDecode(b)
	cls := 0
	if pan {
		cls = 2
	} else if err != nil {
		cls = 1
	}
	elem := "None"
	stable := true
	implDesc := ""
	if cls == 0 {
		if e != nil {
			tr := fromElem(e)
			elem = "(Some " + tr.coq() + ")"
			re, _ := safeEncode(e)
			d2, p2, err2, pan2 := safeDecode(re)
			stable = !pan2 && err2 == nil && equalElem(d2, e) && p2 == len(re)
			implDesc = fmt.Sprintf("ok pos=%d tree=%s stable=%v", pos, tr.describe(), stable)
		} else {
			implDesc = fmt.Sprintf("ok nil pos=%d", pos)
		}
		if pos > len(b) || !stable {
			st.ImplFailures = append(st.ImplFailures, map[string]interface{}{"what": "decode result out of bounds or unstable", "input": in.Describe(), "pos": pos, "stable": stable})
		}
	} else if cls == 1 {
		implDesc = "error: " + err.Error()
	} else {
		implDesc = "PANIC"
		st.ImplFailures = append(st.ImplFailures, map[string]interface{}{"what": "Decode panicked", "input": in.Describe()})
	}
	st.Hit(fmt.Sprintf("dec:%s:class=%d", kind, cls))
	key := hex.EncodeToString(b)
	if len(key) > 200 {
		l, a, s := cv.Cks(b)
		key = fmt.Sprintf("%d/%d/%d", l, a, s)
	}
	if !seen[key] {
		seen[key] = true
		if len(b) > 1 {
			st.Distinct++
		}
	}
	full := ""
	if len(b) <= 8192 {
		full = hex.EncodeToString(b)
	}
	w.Add(fmt.Sprintf("CDec %s %d %s %d %v", in.Coq(), cls, elem, max0(pos), stable),
		desc{Kind: "decode/" + kind, Input: in.Describe(), Full: full, Impl: implDesc})
}

// ----- sweep digest, mirrors Rlp/Run.v -----
func serN4(n int) []byte { return []byte{byte(n >> 24), byte(n >> 16), byte(n >> 8), byte(n)} }
func serItem(e rlp.Element) []byte {
	if !e.IsList() {
		d := []byte(e.(rlp.Data))
		return append(append([]byte{0x53}, serN4(len(d))...), d...)
	}
	l := e.(rlp.List)
	out := append([]byte{0x4c}, serN4(len(l))...)
	for _, k := range l {
		out = append(out, serItem(k)...)
	}
	return out
}
func serOutcome(in []byte) []byte {
	e, pos, err, pan := safeDecode(in)
	switch {
	case pan:
		return []byte{2}
	case err != nil:
		return []byte{1}
	case e == nil:
		return append([]byte{3}, serN4(pos)...)
	default:
		return append(append([]byte{0}, serN4(pos)...), serItem(e)...)
	}
}
func mix(acc uint64, l []byte) uint64 {
	n, a, b := cv.Cks(l)
	p := cv.CksP
	v := mulmodp(acc, 1000003)
	v = (v + mulmodp(n, 65537)) % p
	v = (v + mulmodp(a, 257)) % p
	v = (v + b%p + 1) % p
	return v
}
func mulmodp(a, b uint64) uint64 {
	// a < 2^61, b small
	var res uint64
	a %= cv.CksP
	for b > 0 {
		if b&1 == 1 {
			res = (res + a) % cv.CksP
		}
		a = (a * 2) % cv.CksP
		b >>= 1
	}
	return res
}
func blockDigest(k int, prefix []byte, count *int, panics *[]string) uint64 {
	var acc uint64
	var rec func(k int, cur []byte)
	rec = func(k int, cur []byte) {
		if k == 0 {
			o := serOutcome(cur)
			if len(o) == 1 && o[0] == 2 && len(*panics) < 5 {
				*panics = append(*panics, hex.EncodeToString(cur))
			}
			acc = mix(acc, o)
			*count++
			return
		}
		for b := 0; b < 256; b++ {
			rec(k-1, append(append([]byte{}, cur...), byte(b)))
		}
	}
	rec(k, prefix)
	return acc
}

func main() {
	out := flag.String("out", "", "output directory")
	tier := flag.String("tier", "quick", "quick|thorough")
	replay := flag.String("replay", "", "replay file")
	flag.Parse()
	if *out == "" {
		fmt.Fprintln(os.Stderr, "need -out")
		os.Exit(2)
	}
	os.MkdirAll(*out, 0o755)
	header := "From Coq Require Import String List NArith Uint63.\nFrom FFS Require Import Base.Bytes Base.Lit Rlp.Run.\nImport ListNotations.\nOpen Scope string_scope. Open Scope N_scope."
	st := cv.NewStats()
	seen := map[string]bool{}
	w := cv.NewWriter(*out, "C06", header, "case", "mismatches", 16)

	if *replay != "" {
		raw, err := os.ReadFile(*replay)
		if err != nil {
			panic(err)
		}
		var rp struct {
			Case desc `json:"case"`
		}
		json.Unmarshal(raw, &rp)
		if rp.Case.Full == "" {
			fmt.Println("replay: case has no literal input recorded (large DSL input); description:", rp.Case.Input)
			os.Exit(0)
		}
		b, _ := hex.DecodeString(rp.Case.Full)
		w.Shards = 1
		w = cv.NewWriter(*out, "C06", header, "case", "mismatches", 1)
		addDec(w, st, cv.Lit(b), "replay", seen)
		w.Flush()
		fmt.Println("implementation:", st.Distribution)
		st.Evaluations = 1
		st.Write(filepath.Join(*out, "stats_C06.json"))
		return
	}

	thorough := *tier == "thorough"
	r := cv.NewRand(6)

	// --- regression/boundary corpus first: every threshold as a bare string and as a list payload ---
	for _, n := range []int{0, 1, 2, 54, 55, 56, 57, 255, 256, 257, 65535, 65536} {
		addEnc(w, st, &tree{data: cv.Rep(0x62, n)}, cv.Lit(nil), seen)
		addEnc(w, st, &tree{data: cv.Rep(0x62, n)}, cv.Lit([]byte{0xc0, 0x01}), seen)
		addEnc(w, st, payloadTree(r, n), cv.Lit(nil), seen)
		addEnc(w, st, payloadTree(r, n), cv.Lit([]byte{0xff}), seen)
	}
	for b := 0; b < 256; b += 1 {
		if b < 4 || (b > 0x7c && b < 0x84) || b > 0xfc {
			addEnc(w, st, &tree{data: cv.Lit([]byte{byte(b)})}, cv.Lit(nil), seen)
		}
	}
	// memory-hungry cases go to their own files ("_big": ./check evaluates those two at a time)
	wbig := cv.NewWriter(*out, "C06_big", header, "case", "mismatches", 8)
	if thorough {
		for _, n := range []int{1 << 24, 1<<24 + 1, 1<<20 + 7} {
			addEnc(wbig, st, &tree{data: cv.Rep(0x63, n)}, cv.Lit([]byte{0x01}), seen)
			addEnc(wbig, st, &tree{list: true, kids: []*tree{{data: cv.Rep(0x63, n)}, {data: cv.Lit([]byte{0x80})}}}, cv.Lit(nil), seen)
		}
	}
	// deep nesting (depth 8) with payload crossing 55/56
	{
		t := &tree{data: cv.Rep(0x64, 50)}
		for i := 0; i < 8; i++ {
			t = &tree{list: true, kids: []*tree{t}}
			addEnc(w, st, t, cv.Lit(nil), seen)
		}
	}
	// --- random trees ---
	nTrees := 350
	if thorough {
		nTrees = 6000
	}
	var encodings [][]byte
	for i := 0; i < nTrees; i++ {
		t := genTree(r, st, 1+r.Intn(8), i%12 == 0)
		var trail cv.DSL
		switch r.Intn(4) {
		case 0:
			trail = cv.Lit(nil)
		case 1:
			trail = cv.Lit(r.Bytes(1 + r.Intn(5)))
		case 2:
			trail = cv.Lit([]byte{0xb8})
		default:
			trail = cv.Rep(r.Byte(), 1+r.Intn(100))
		}
		addEnc(w, st, t, trail, seen)
		if enc, p := safeEncode(t.elem()); !p && len(enc) <= 2048 {
			encodings = append(encodings, enc)
		}
	}

	// --- decoder: structure-aware mutations of valid encodings ---
	nMut := 1400
	if thorough {
		nMut = 40000
	}
	for i := 0; i < nMut && len(encodings) > 0; i++ {
		enc := append([]byte{}, encodings[r.Intn(len(encodings))]...)
		kind := ""
		switch r.Intn(8) {
		case 0: // length byte +-1
			kind = "hdr+-1"
			if r.Bool() {
				enc[0]++
			} else {
				enc[0]--
			}
		case 1: // truncate
			kind = "truncate"
			if len(enc) > 0 {
				k := r.Intn(len(enc))
				if len(enc) > 64 && r.Bool() {
					k = r.Intn(64)
				}
				enc = enc[:k]
			}
		case 2: // swap string<->list prefix
			kind = "swap-kind"
			if enc[0] >= 0x80 && enc[0] < 0xc0 {
				enc[0] += 0x40
			} else if enc[0] >= 0xc0 {
				enc[0] -= 0x40
			}
		case 3: // non-canonical long form of the same payload (leading zero in the length, or long form for short)
			kind = "noncanonical-long"
			e, _, err, _ := safeDecode(enc)
			if err == nil && e != nil {
				var payload []byte
				base := byte(0xb7)
				if e.IsList() {
					base = 0xf7
					for _, k := range e.(rlp.List) {
						payload = append(payload, k.Encode()...)
					}
				} else {
					payload = []byte(e.(rlp.Data))
				}
				lol := 1 + r.Intn(8)
				lb := make([]byte, lol)
				n := len(payload)
				for j := lol - 1; j >= 0; j-- {
					lb[j] = byte(n)
					n >>= 8
				}
				enc = append(append([]byte{base + byte(lol)}, lb...), payload...)
			}
		case 4: // huge declared length
			kind = "huge-len"
			lol := 1 + r.Intn(8)
			lb := r.Bytes(lol)
			if r.Bool() {
				lb[0] |= 0x80
			}
			base := byte(0xb7)
			if r.Bool() {
				base = 0xf7
			}
			enc = append(append([]byte{base + byte(lol)}, lb...), enc...)
		case 5: // random byte flip somewhere
			kind = "flip"
			if len(enc) > 0 {
				enc[r.Intn(len(enc))] = r.Byte()
			}
		case 6: // length exactly at maxInt32 boundary
			kind = "maxint32"
			v := uint32(0x7fffffff)
			if r.Bool() {
				v = 0x80000000
			}
			base := byte(0xb7)
			if r.Bool() {
				base = 0xf7
			}
			enc = append([]byte{base + 4, byte(v >> 24), byte(v >> 16), byte(v >> 8), byte(v)}, enc...)
		default: // wrap in a list with a wrong payload length
			kind = "wrap-wrong-len"
			n := len(enc) + r.Intn(5) - 2
			if n < 0 {
				n = 0
			}
			if n <= 55 {
				enc = append([]byte{0xc0 + byte(n)}, enc...)
			} else {
				enc = append([]byte{0xf8, byte(n)}, enc...)
			}
		}
		addDec(w, st, cv.Lit(enc), kind, seen)
	}
	// --- decoder: long-form elements nested at offset k > 0 of a list whose declared length overruns
	// the enclosing list by d bytes (d <= k and d > k), with nothing / enough bytes after the list:
	// the length guards of extractLongLen must be relative to the position inside the slice being
	// decoded, not to its start ---
	for _, k := range []int{1, 2, 3, 5, 9, 60} {
		for d := -1; d <= 4; d++ {
			for form := 0; form < 4; form++ {
				inner := 56 + r.Intn(3)
				if form%2 == 1 {
					inner = 256 + r.Intn(3)
				}
				declared := inner + d
				var hdr []byte
				base := byte(0xb7)
				if form >= 2 {
					base = 0xf7
				}
				if declared < 256 {
					hdr = []byte{base + 1, byte(declared)}
				} else {
					hdr = []byte{base + 2, byte(declared >> 8), byte(declared)}
				}
				if form%2 == 1 && declared < 256 {
					continue
				}
				payload := make([]byte, 0, k+len(hdr)+inner)
				for i := 0; i < k; i++ {
					payload = append(payload, byte(1+r.Intn(0x7e)))
				}
				payload = append(payload, hdr...)
				body := make([]byte, inner)
				for i := range body {
					body[i] = byte(r.Intn(0x80)) // single-byte items, so a list body is well formed too
				}
				payload = append(payload, body...)
				var outer []byte
				n := len(payload)
				if n <= 55 {
					outer = []byte{0xc0 + byte(n)}
				} else if n < 256 {
					outer = []byte{0xf8, byte(n)}
				} else {
					outer = []byte{0xf9, byte(n >> 8), byte(n)}
				}
				enc := append(outer, payload...)
				addDec(w, st, cv.Lit(enc), "nested-long-overrun", seen)
				addDec(w, st, cv.Lit(append(append([]byte{}, enc...), 0x01, 0x02, 0x03, 0x04, 0x05)), "nested-long-overrun+trail", seen)
				// the same element one level deeper
				deep := append([]byte{0xf9, byte((len(enc) + 1) >> 8), byte(len(enc) + 1), 0x05}, enc...)
				addDec(w, st, cv.Lit(deep), "nested-long-overrun-deep", seen)
			}
		}
	}
	// truncated long-form headers nested at an offset (length-of-length bytes cut by the list end)
	for _, k := range []int{1, 2, 4} {
		for lol := 1; lol <= 8; lol++ {
			for cut := 0; cut < lol; cut++ {
				payload := make([]byte, 0, 16)
				for i := 0; i < k; i++ {
					payload = append(payload, byte(1+r.Intn(0x7e)))
				}
				payload = append(payload, 0xb7+byte(lol))
				for i := 0; i < cut; i++ {
					payload = append(payload, 0x00)
				}
				enc := append([]byte{0xc0 + byte(len(payload))}, payload...)
				addDec(w, st, cv.Lit(enc), "nested-long-hdr-cut", seen)
				addDec(w, st, cv.Lit(append(append([]byte{}, enc...), 0x00, 0x00, 0x00, 0x00, 0x00, 0x00, 0x00, 0x38)), "nested-long-hdr-cut+trail", seen)
			}
		}
	}
	// --- decoder: random bytes ---
	nRand := 300
	maxLen := 4096
	if thorough {
		nRand = 6000
	}
	for i := 0; i < nRand; i++ {
		n := r.Intn(40)
		if i%10 == 0 {
			n = r.Intn(maxLen)
		}
		b := r.Bytes(n)
		if n > 0 && r.Bool() {
			b[0] = []byte{0xb8, 0xb9, 0xbf, 0xc1, 0xf7, 0xf8, 0xf9, 0xff, 0x80, 0x81, 0xb7}[r.Intn(11)]
		}
		addDec(w, st, cv.Lit(b), "random", seen)
	}
	if thorough {
		// 1 MiB inputs through the DSL: long string header + repeated payload, correct and off by one
		for _, n := range []int{1 << 20, 1<<20 - 1} {
			hdr := []byte{0xba, 0x10, 0x00, 0x00}
			addDec(wbig, st, cv.Cat(cv.Lit(hdr), cv.Rep(0x41, n)), "dsl-1MiB", seen)
		}
	}
	addDec(w, st, cv.Lit(nil), "empty", seen)
	if err := w.Flush(); err != nil {
		panic(err)
	}
	if err := wbig.Flush(); err != nil {
		panic(err)
	}

	// --- exhaustive sweep: every input of length <= 2 (quick), <= 3 (thorough) ---
	var blocks []string
	count := 0
	var panics []string
	blocks = append(blocks, fmt.Sprintf("(BLit \"\", 0%%nat, %d)", blockDigest(0, nil, &count, &panics)))
	blocks = append(blocks, fmt.Sprintf("(BLit \"\", 1%%nat, %d)", blockDigest(1, nil, &count, &panics)))
	for b := 0; b < 256; b++ {
		blocks = append(blocks, fmt.Sprintf("(BLit \"%02x\", 1%%nat, %d)", b, blockDigest(1, []byte{byte(b)}, &count, &panics)))
	}
	sweepShards := 1
	if thorough {
		sweepShards = 16
		for b := 0; b < 256; b++ {
			blocks = append(blocks, fmt.Sprintf("(BLit \"%02x\", 2%%nat, %d)", b, blockDigest(2, []byte{byte(b)}, &count, &panics)))
		}
	}
	for _, p := range panics {
		st.ImplFailures = append(st.ImplFailures, map[string]interface{}{"what": "Decode panicked", "input": p})
	}
	for k := 0; k < sweepShards; k++ {
		var mine []string
		for i, b := range blocks {
			if i%sweepShards == k {
				mine = append(mine, b)
			}
		}
		f, _ := os.Create(filepath.Join(*out, fmt.Sprintf("sweep_C06_%d.v", k)))
		fmt.Fprintln(f, header)
		fmt.Fprintf(f, "Definition blocks : list (bdsl * nat * N) := [\n  %s\n].\n", strings.Join(mine, ";\n  "))
		fmt.Fprintln(f, "Definition M := Eval vm_compute in (sweep_mismatches blocks).\nPrint M.")
		f.Close()
	}
	st.Extra["sweep_inputs"] = count
	st.Extra["sweep_max_len"] = map[bool]int{false: 2, true: 3}[thorough]
	st.Extra["sweep_blocks"] = len(blocks)
	st.Exhaustive = true
	st.Evaluations = w.Count() + wbig.Count() + count
	st.Distinct += count - 257 // every sweep input is distinct; inputs of length <= 1 counted as trivial
	st.Rule = "trees from a shape grammar (depth<=8, string lengths at the RLP thresholds 0,1,55,56,255,256,65535,65536 and random, list payloads forced across the same thresholds) encoded and decoded back with trailing bytes; decoder inputs = structure-aware mutations of valid encodings + random bytes + every byte string of length <= sweep_max_len (exhaustive, compared per block digest). distinct = distinct (tree,trail) or input bytes; non-trivial = more than one byte of input or output"
	st.Samples = append(st.Samples, "CEnc (DLst [DStr (BRep 98 56)]) ...", "CDec (BLit \"b90001ff\") ...")
	if err := st.Write(filepath.Join(*out, "stats_C06.json")); err != nil {
		panic(err)
	}
}
