// Round 3: results that are right when returned and wrong later.
//
// Every object the implementation hands back (the *big.Int of BigIntegerFromString, a HexInteger / HexUint64
// receiver, a HexBytes slice, an address, the []byte of a MarshalJSON, the string of a String()) is kept alive in a
// ring together with a deep copy taken at return time (the value that is compared with the model / the spec oracle in
// Coq).  After every later call of the implementation the whole ring is compared again; a difference means that the
// returned object shares memory with state of the package (a pooled / package-level scratch value, a cache, a shared
// output buffer), with the input buffer, or with another result.  When an item leaves the ring the harness overwrites
// the returned object in place (it is the caller's memory), checks that no other retained value moved and that the
// same call still gives the same answer (a cache handing out its own entry fails here).
package main

import (
	"bytes"
	"encoding/hex"
	"fmt"
	"math/big"
	"sort"
	"sync"

	"verifharness/cv"
)

const ringSize = 320

type keptItem struct {
	op       string // replayable operation (runOp)
	in       []byte // its input (private copy)
	what     string // which returned object is watched
	expect   string // summary of the whole call at return time
	same     func() bool
	now      func() string
	want     string
	scribble func() // overwrite the returned object in place; nil when there is nothing the caller may write to
}

type keeper struct {
	ring     []*keptItem
	next     int
	fails    []interface{}
	maxFails int
	tag      string
	stat     map[string]int
	lastOp   string
	lastIn   []byte
}

func newKeeper(size int, tag string) *keeper {
	return &keeper{ring: make([]*keptItem, size), maxFails: 25, tag: tag, stat: map[string]int{}}
}

// K is the keeper of the sequential part of the run (the concurrent section gives every goroutine its own)
var K = func() *keeper { k := newKeeper(ringSize, ""); k.maxFails = 40; return k }()

func (k *keeper) fail(f map[string]interface{}) {
	if k == nil {
		return
	}
	k.stat["retain:FAILED"]++
	if len(k.fails) < k.maxFails {
		if k.tag != "" {
			f["where"] = k.tag
		}
		k.fails = append(k.fails, f)
	}
}

// sweep compares every retained object with its copy; laterOp/laterIn is the call that has just run
func (k *keeper) sweep(laterOp string, laterIn []byte) {
	if k == nil {
		return
	}
	k.stat["retain:sweeps"]++
	for idx, it := range k.ring {
		if it == nil {
			continue
		}
		k.stat["retain:recompared"]++
		if !safeSame(it) {
			k.fail(map[string]interface{}{
				"what":        "a value returned earlier changed after a later call (the returned object shares memory with internal state, the input buffer or another result): " + it.what,
				"kind":        "retain",
				"op":          it.op,
				"input":       printable(it.in),
				"input_hex":   hex.EncodeToString(it.in),
				"returned":    it.want,
				"reads_now":   safeNow(it),
				"later_op":    laterOp,
				"later_input": printable(laterIn),
				"later_hex":   hex.EncodeToString(laterIn),
			})
			k.ring[idx] = nil
		}
	}
}

// after: bookkeeping at the end of every call of the implementation
func (k *keeper) after(op string, in []byte) {
	if k == nil {
		return
	}
	k.sweep(op, in)
}

func (k *keeper) keep(it *keptItem) {
	if k == nil || it == nil {
		return
	}
	k.stat["retain:kept:"+it.op]++
	old := k.ring[k.next]
	k.ring[k.next] = it
	k.next = (k.next + 1) % len(k.ring)
	if old != nil {
		k.evict(old)
	}
}

// evict: the caller writes over the object it was given, nothing else may move, and the same call repeated gives the same answer
func (k *keeper) evict(old *keptItem) {
	if old.scribble == nil {
		return
	}
	old.scribble()
	k.stat["retain:overwritten-by-caller"]++
	k.sweep("(caller overwrote the result of) "+old.op, old.in)
	if again := runOp(nil, old.op, old.in); again != old.expect {
		k.fail(map[string]interface{}{
			"what":      "repeating a call after the caller overwrote the object returned by the earlier call gives a different result (the implementation hands out an object it keeps): " + old.what,
			"kind":      "retain",
			"op":        old.op,
			"input":     printable(old.in),
			"input_hex": hex.EncodeToString(old.in),
			"returned":  clip(old.expect),
			"reads_now": clip(again),
			"later_op":  old.op,
			"later_hex": hex.EncodeToString(old.in),
			"overwrite": true,
		})
	}
}

// finish: last comparison of everything still retained, then the overwrite test for each
func (k *keeper) finish() {
	k.sweep("(end of run)", nil)
	for idx, it := range k.ring {
		if it != nil {
			k.ring[idx] = nil
			k.evict(it)
		}
	}
}

// a value overwritten behind the caller's back need not even be well formed (a big.Int with leading zero words makes
// math/big panic when printed)
func safeSame(it *keptItem) (ok bool) {
	defer func() {
		if recover() != nil {
			ok = false
		}
	}()
	return it.same()
}
func safeNow(it *keptItem) (s string) {
	defer func() {
		if x := recover(); x != nil {
			s = fmt.Sprintf("not even a well-formed value any more (reading it panics: %v)", x)
		}
	}()
	return it.now()
}

func clip(s string) string {
	if len(s) > 160 {
		return s[:100] + "..." + s[len(s)-40:]
	}
	return s
}

// ---------- helpers for the watched objects ----------
func scribbleInt(i *big.Int) {
	w := i.Bits() // shares the words of i
	for j := range w {
		w[j] ^= 0x5a5a5a5a
	}
}
func scribbleBytes(b []byte) {
	for j := range b {
		b[j] ^= 0xff
	}
}
func cloneString(s string) string { return string(append([]byte(nil), s...)) }

func watchInt(what string, live *big.Int) *keptItem {
	if live == nil || live.BitLen() > 1<<14 {
		return nil
	}
	snap := new(big.Int).Set(live)
	return &keptItem{what: what, want: short(snap.String()),
		same:     func() bool { return live.Cmp(snap) == 0 },
		now:      func() string { return short(live.String()) },
		scribble: func() { scribbleInt(live) }}
}

func watchBytes(what string, lives ...[]byte) *keptItem {
	if len(lives) == 0 {
		return nil
	}
	snap := append([]byte(nil), lives[0]...)
	return &keptItem{what: what, want: clip(hex.EncodeToString(snap)),
		same: func() bool {
			for _, l := range lives {
				if !bytes.Equal(l, snap) {
					return false
				}
			}
			return true
		},
		now: func() string {
			for _, l := range lives {
				if !bytes.Equal(l, snap) {
					return clip(hex.EncodeToString(l))
				}
			}
			return clip(hex.EncodeToString(snap))
		},
		scribble: func() {
			for _, l := range lives {
				scribbleBytes(l)
			}
		}}
}

// texts: []byte results (may be written by the caller) and string results (read only) of the print functions
func watchTexts(what string, outs [][]byte, strs []string) *keptItem {
	snapO := make([][]byte, len(outs))
	for i, o := range outs {
		snapO[i] = append([]byte(nil), o...)
	}
	snapS := make([]string, len(strs))
	for i, s := range strs {
		snapS[i] = cloneString(s)
	}
	cur := func() string {
		s := ""
		for _, o := range outs {
			s += string(o) + " "
		}
		for _, x := range strs {
			s += cloneString(x) + " "
		}
		return clip(s)
	}
	return &keptItem{what: what, want: cur(),
		same: func() bool {
			for i, o := range outs {
				if !bytes.Equal(o, snapO[i]) {
					return false
				}
			}
			for i, s := range strs {
				if len(s) != len(snapS[i]) || !bytes.Equal([]byte(s), []byte(snapS[i])) {
					return false
				}
			}
			return true
		},
		now: cur,
		scribble: func() {
			for _, o := range outs {
				scribbleBytes(o)
			}
		}}
}

// several watched objects of one call as one item
func joinItems(op string, in []byte, expect string, items ...*keptItem) *keptItem {
	var its []*keptItem
	for _, it := range items {
		if it != nil {
			its = append(its, it)
		}
	}
	if len(its) == 0 {
		return nil
	}
	what, want := "", ""
	for i, it := range its {
		if i > 0 {
			what += "; "
			want += " | "
		}
		what += it.what
		want += it.want
	}
	j := &keptItem{op: op, in: append([]byte(nil), in...), expect: expect, what: what, want: clip(want),
		same: func() bool {
			for _, it := range its {
				if !it.same() {
					return false
				}
			}
			return true
		},
		now: func() string {
			s := ""
			for i, it := range its {
				if i > 0 {
					s += " | "
				}
				s += it.now()
			}
			return clip(s)
		}}
	canWrite := false
	for _, it := range its {
		if it.scribble != nil {
			canWrite = true
		}
	}
	if canWrite {
		j.scribble = func() {
			for _, it := range its {
				if it.scribble != nil {
					it.scribble()
				}
			}
		}
	}
	return j
}

// ---------- the input buffer of the []byte entry points ----------
// inputGuard hands the implementation a private copy of the input; done() checks that the call left it alone and then
// overwrites it (the json.Unmarshaler contract: "UnmarshalJSON must copy the JSON data if it wishes to retain the data
// after returning"), so a result that points into the input is seen by the sweep that follows.
type inputGuard struct {
	orig, buf []byte
}

func guardInput(in []byte) *inputGuard {
	return &inputGuard{orig: in, buf: append(make([]byte, 0, len(in)+8), in...)}
}
func (ig *inputGuard) done(k *keeper, op string) {
	if ig == nil {
		return
	}
	if !bytes.Equal(ig.buf, ig.orig) {
		k.fail(map[string]interface{}{"what": "the call modified its input buffer", "kind": "retain", "op": op,
			"input": printable(ig.orig), "input_hex": hex.EncodeToString(ig.orig), "reads_now": printable(ig.buf), "later_op": op, "later_hex": hex.EncodeToString(ig.orig)})
	}
	scribbleBytes(ig.buf[:cap(ig.buf)])
}

// ---------- one replayable operation, summary of what the implementation returned ----------
func sumInt(r intRes) string {
	if r.cls != 0 {
		return fmt.Sprintf("%d:", r.cls)
	}
	if r.val.BitLen() > 1<<14 {
		return fmt.Sprintf("0:huge:%d:%d", r.val.Sign(), r.val.BitLen())
	}
	return "0:" + r.val.Text(16)
}
func (r bytesRes) sum() string {
	if r.cls != 0 {
		return fmt.Sprintf("%d:", r.cls)
	}
	return "0:" + hex.EncodeToString(r.out)
}

func runOp(k *keeper, op string, in []byte) string {
	switch op {
	case "parse0":
		return sumInt(runParseRaw(k, 0, in))
	case "parse1":
		return sumInt(runParseRaw(k, 1, in))
	case "parse2":
		return sumInt(runParseRaw(k, 2, in))
	case "addr-direct":
		return runAddr(k, true, in).sum()
	case "addr-json":
		return runAddr(k, false, in).sum()
	case "bytes":
		return runBytes(k, in).sum()
	case "print1", "print2":
		ty := 1
		if op == "print2" {
			ty = 2
		}
		out, err := runPrint(k, ty, new(big.Int).SetBytes(in))
		if err != nil {
			return "error"
		}
		return string(out)
	case "addrprint":
		s0, sc, sp, err := runAddrPrint(k, in)
		if err != nil {
			return "error"
		}
		return s0 + " " + sc + " " + sp
	case "bytesprint":
		sp, s0, err := runBytesPrint(k, in)
		if err != nil {
			return "error"
		}
		return sp + " " + s0
	case "doc":
		return runDoc(k, in)
	}
	return "unknown op " + op
}

// ---------- merging keeper results into the statistics ----------
func (g *gen) mergeKeeper(k *keeper) {
	keys := make([]string, 0, len(k.stat))
	for s := range k.stat {
		keys = append(keys, s)
	}
	sort.Strings(keys)
	for _, s := range keys {
		g.st.Distribution[s] += k.stat[s]
	}
	room := 40 - g.retainFails
	for _, f := range k.fails {
		if room <= 0 {
			break
		}
		g.st.ImplFailures = append(g.st.ImplFailures, f)
		g.retainFails++
		room--
	}
}

// ---------- concurrent section ----------
// N goroutines parse and print disjoint streams (own PRNG stream, own keeper); every result has an expected summary
// known by construction (the value the text was written from), is compared at once, retained and compared again.
func (g *gen) concurrent(workers, ops int) {
	var wg sync.WaitGroup
	start := make(chan struct{})
	ks := make([]*keeper, workers)
	counts := make([]map[string]int, workers)
	for w := 0; w < workers; w++ {
		ks[w] = newKeeper(96, fmt.Sprintf("concurrent section, goroutine %d of %d", w, workers))
		counts[w] = map[string]int{}
		wg.Add(1)
		go func(w int) {
			defer wg.Done()
			k := ks[w]
			defer func() {
				if x := recover(); x != nil {
					k.fail(map[string]interface{}{"what": fmt.Sprintf("panic in the concurrent section: %v", x), "kind": "concurrent"})
				}
			}()
			r := cv.NewRand(uint64(7000 + w))
			<-start
			for i := 0; i < ops; i++ {
				op, in, want := randomOp(r)
				counts[w]["concurrent:"+op]++
				got := runOp(k, op, in)
				if got != want {
					k.fail(map[string]interface{}{"what": "wrong result while other goroutines use the package (or state left by an earlier call): " + op, "kind": "concurrent",
						"op": op, "input": printable(in), "input_hex": hex.EncodeToString(in), "expected": clip(want), "impl": clip(got)})
				}
			}
			k.finish()
		}(w)
	}
	close(start)
	wg.Wait()
	for w := 0; w < workers; w++ {
		for s, n := range counts[w] {
			g.st.Distribution[s] += n
		}
		g.mergeKeeper(ks[w])
	}
	g.st.Extra["concurrent_goroutines"] = workers
	g.st.Extra["concurrent_ops_each"] = ops
}

// randomOp: an operation with the summary it must produce, from r alone
func randomOp(r *cv.Rand) (op string, in []byte, want string) {
	switch r.Intn(12) {
	case 0, 1, 2, 3, 4:
		ty := r.Intn(3)
		n := randomValue(r, ty == 2)
		text, numOK := randSpell(r, n, 5)
		in = []byte(text)
		if ty != 0 {
			if !(numOK && r.Bool()) {
				in = []byte(`"` + text + `"`)
			}
		}
		return fmt.Sprintf("parse%d", ty), in, "0:" + n.Text(16)
	case 5:
		b := r.Bytes(r.Intn(70))
		pre := []string{"", "0x"}[r.Intn(2)]
		return "bytes", []byte(`"` + pre + hexCase(r, b, r.Intn(3)) + `"`), "0:" + hex.EncodeToString(b)
	case 6:
		a := r.Bytes(20)
		pre := []string{"", "0x"}[r.Intn(2)]
		t := pre + hexCase(r, a, r.Intn(3))
		if r.Bool() {
			return "addr-direct", []byte(t), "0:" + hex.EncodeToString(a)
		}
		return "addr-json", []byte(`"` + t + `"`), "0:" + hex.EncodeToString(a)
	case 7:
		n := randomValue(r, false)
		return "print1", n.Bytes(), `"0x` + n.Text(16) + `"`
	case 8:
		n := randomValue(r, true)
		return "print2", n.Bytes(), `"0x` + n.Text(16) + `"`
	case 9:
		a := r.Bytes(20)
		return "addrprint", a, "0x" + hex.EncodeToString(a) + " " + eip55(a) + " " + hex.EncodeToString(a)
	case 10:
		b := r.Bytes(r.Intn(70))
		return "bytesprint", b, hex.EncodeToString(b) + " 0x" + hex.EncodeToString(b)
	default:
		text, want := randomDoc(r, false)
		return "doc", text, want
	}
}

// a non-negative value: boundaries of the integer types and random bit lengths
func randomValue(r *cv.Rand, u64 bool) *big.Int {
	maxBits := 256
	if u64 {
		maxBits = 64
	}
	switch r.Intn(8) {
	case 0:
		ks := []uint{8, 16, 31, 32, 53, 63, 64, 128, 255, 256}
		k := ks[r.Intn(len(ks))]
		for int(k) > maxBits {
			k = ks[r.Intn(len(ks))]
		}
		p := new(big.Int).Lsh(big.NewInt(1), k)
		if int(k) == maxBits || r.Bool() {
			return p.Sub(p, big.NewInt(1))
		}
		return p
	case 1:
		return big.NewInt(int64(r.Intn(17)))
	case 2:
		// many trailing decimal zeros
		z := big.NewInt(int64(1 + r.Intn(999)))
		k := 18
		if !u64 {
			k = 70
		}
		z.Mul(z, pow10(int64(r.Intn(k))))
		if u64 && !z.IsUint64() {
			return big.NewInt(1000)
		}
		return z
	}
	bits := 1 + r.Intn(maxBits)
	z := new(big.Int).SetBytes(r.Bytes((bits + 7) / 8))
	z.Rsh(z, uint(8*((bits+7)/8)-bits))
	return z.SetBit(z, bits-1, 1)
}

// randSpell: one spelling of n >= 0 that denotes exactly n; expBias/10 of the draws take an exponent / decimal-point form.
// numOK: the text is also a JSON number.
func randSpell(r *cv.Rand, n *big.Int, expBias int) (text string, numOK bool) {
	ds, hx := n.String(), n.Text(16)
	if r.Intn(10) >= expBias {
		switch r.Intn(5) {
		case 0, 1:
			text = ds
		case 2:
			text = "0x" + hx
		case 3:
			text = "0x" + mixCase(r, hx, 1+r.Intn(2))
		default:
			text = "0x" + "000"[:1+r.Intn(3)] + hx
		}
		return text, isJSONNumber(text)
	}
	es := []string{"e", "E", "e+", "E+"}[r.Intn(4)]
	switch r.Intn(6) {
	case 0:
		if len(ds) > 1 {
			text = fmt.Sprintf("%s.%s%s%d", ds[:1], ds[1:], es, len(ds)-1)
		} else {
			text = ds + es + "0"
		}
	case 1:
		tz := 0
		for tz < len(ds)-1 && ds[len(ds)-1-tz] == '0' {
			tz++
		}
		text = fmt.Sprintf("%s%s%d", ds[:len(ds)-tz], es, tz)
	case 2:
		text = ds + "." + "000000"[:1+r.Intn(6)]
	case 3:
		k := 1 + r.Intn(5)
		text = fmt.Sprintf("%s%se-%d", ds, "00000"[:k], k)
	case 4:
		if len(ds) > 1 {
			p := 1 + r.Intn(len(ds)-1)
			text = fmt.Sprintf("%s.%s%s%d", ds[:p], ds[p:], es, len(ds)-p)
		} else {
			text = ds + ".0e0"
		}
	default:
		// trailing zeros partly in the exponent, a fraction of zeros
		text = ds + ".00" + es + "0"
	}
	return text, isJSONNumber(text)
}
