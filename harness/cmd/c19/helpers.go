// Round 3: the constructors and accessors around the JSON types (NewHexInteger*, BigInt/Uint64/Int64, nil receivers,
// Scan, the Must* constructors).  Each has an obvious meaning in terms of the value the object prints; the objects they
// return are retained like every other result (a shared "zero" handed out for a nil receiver would be written through).
package main

import (
	"encoding/hex"
	"fmt"
	"math/big"
	"strconv"

	"github.com/hyperledger/firefly-signer/pkg/ethtypes"
)

func (g *gen) helperFail(what string, detail string) {
	g.st.Hit("helper:FAILED")
	K.fail(map[string]interface{}{"what": "constructor / accessor of the hex types: " + what, "kind": "helper", "detail": detail})
}

func panics(f func()) (p bool) {
	defer func() {
		if recover() != nil {
			p = true
		}
	}()
	f()
	return false
}

func (g *gen) addHelpers() {
	r := g.r
	defer func() {
		if x := recover(); x != nil {
			g.helperFail("panic", fmt.Sprint(x))
		}
	}()
	u64s := []uint64{0, 1, 9, 10, 15, 16, 255, 256, 1<<31 - 1, 1 << 31, 1<<32 - 1, 1 << 32, 1<<53 + 1, 1<<63 - 1, 1 << 63, 1<<64 - 1}
	for i := 0; i < 48; i++ {
		u64s = append(u64s, r.U64()>>uint(r.Intn(64)))
	}
	for _, u := range u64s {
		g.st.Hit("helper:u64")
		want := "0x" + strconv.FormatUint(u, 16)
		// NewHexIntegerU64 / NewHexInteger64: the value, its canonical text, the accessors
		h := ethtypes.NewHexIntegerU64(u)
		if h.BigInt().Cmp(new(big.Int).SetUint64(u)) != 0 || h.String() != want || h.Uint64() != u || (u < 1<<63 && h.Int64() != int64(u)) {
			g.helperFail("NewHexIntegerU64", fmt.Sprintf("%d -> %s", u, h.String()))
		}
		K.keep(joinItems("print1", new(big.Int).SetUint64(u).Bytes(), `"`+want+`"`, watchInt("the HexInteger returned by NewHexIntegerU64", h.BigInt())))
		if i := int64(u); i >= 0 {
			h := ethtypes.NewHexInteger64(i)
			if h.BigInt().Cmp(big.NewInt(i)) != 0 || h.String() != want || h.Int64() != i || h.Uint64() != u {
				g.helperFail("NewHexInteger64", fmt.Sprintf("%d -> %s", i, h.String()))
			}
			K.keep(joinItems("print1", big.NewInt(i).Bytes(), `"`+want+`"`, watchInt("the HexInteger returned by NewHexInteger64", h.BigInt())))
			// Scan of the database driver types: int64 / uint64 give that value, nil leaves the receiver alone, anything else is an error
			var s1, s2 ethtypes.HexInteger
			if s1.Scan(i) != nil || s2.Scan(u) != nil || s1.String() != want || s2.String() != want {
				g.helperFail("HexInteger.Scan", fmt.Sprintf("%d -> %s / %s", i, s1.String(), s2.String()))
			}
			// (an unsupported source type: whether it is refused is not part of the property; when refused the receiver is unchanged)
			if s1.Scan(nil) != nil || s1.String() != want || (s1.Scan(1.5) != nil && s1.String() != want) {
				g.helperFail("HexInteger.Scan(nil / unsupported)", fmt.Sprintf("%d -> %s", i, s1.String()))
			}
			K.keep(joinItems("print1", big.NewInt(i).Bytes(), `"`+want+`"`, watchInt("the HexInteger filled by Scan(int64)", s1.BigInt()), watchInt("the HexInteger filled by Scan(uint64)", s2.BigInt())))
			var u1, u2 ethtypes.HexUint64
			if u1.Scan(i) != nil || u2.Scan(u) != nil || u1.String() != want || u2.String() != want || u1.Uint64() != u {
				g.helperFail("HexUint64.Scan", fmt.Sprintf("%d -> %s / %s", i, u1.String(), u2.String()))
			}
			if u1.Scan(nil) != nil || u1.String() != want || (u1.Scan(1.5) != nil && u1.String() != want) {
				g.helperFail("HexUint64.Scan(nil / unsupported)", fmt.Sprintf("%d -> %s", i, u1.String()))
			}
		} else {
			var u2 ethtypes.HexUint64
			if u2.Scan(u) != nil || u2.String() != want {
				g.helperFail("HexUint64.Scan(uint64)", fmt.Sprintf("%d -> %s", u, u2.String()))
			}
		}
		hu := ethtypes.HexUint64(u)
		if hu.Uint64() != u || hu.Uint64OrZero() != u || hu.String() != want {
			g.helperFail("HexUint64 accessors", fmt.Sprintf("%d -> %s", u, hu.String()))
		}
		K.after("print1", nil)
	}
	// negative HexInteger values (outside the property's "non-negative", theorem C19_hexint_negative_no_roundtrip):
	// the text is "0x-" + hex digits, MarshalJSON is that text quoted, and it is refused when read back
	for _, i := range []int64{-1, -15, -16, -255, -(1 << 53), -(1<<63 - 1), -(1 << 63), -int64(r.U64()>>1) - 1} {
		g.st.Hit("helper:negative-print")
		h := ethtypes.NewHexInteger64(i)
		want := "0x-" + new(big.Int).Abs(big.NewInt(i)).Text(16)
		j, err := h.MarshalJSON()
		var back ethtypes.HexInteger
		if h.String() != want || err != nil || string(j) != `"`+want+`"` || back.UnmarshalJSON(j) == nil {
			g.helperFail("negative HexInteger print form", fmt.Sprintf("%d -> %s / %s", i, h.String(), j))
		}
	}
	// nil receivers: zero; BigInt() of a nil receiver is the caller's own zero every time
	{
		g.st.Hit("helper:nil-receiver")
		var hn *ethtypes.HexInteger
		var un *ethtypes.HexUint64
		z1 := hn.BigInt()
		if z1 == nil || z1.Sign() != 0 || hn.Uint64() != 0 || hn.Int64() != 0 || un.String() != "0x0" || un.Uint64OrZero() != 0 {
			g.helperFail("nil receiver", "not zero")
		} else {
			z1.SetUint64(12345) // the caller's own big.Int
			if z2 := hn.BigInt(); z2.Sign() != 0 || hn.Uint64() != 0 {
				g.helperFail("nil receiver", "BigInt() of a nil HexInteger hands out a shared object: after the caller wrote 12345 into the first one the next reads "+z2.String())
			}
		}
	}
	// Must* constructors: the same parse, panic exactly when the parse fails
	for i := 0; i < 24; i++ {
		g.st.Hit("helper:must")
		a := r.Bytes(20)
		t := []string{"", "0x"}[r.Intn(2)] + hexCase(r, a, r.Intn(3))
		var m *ethtypes.Address0xHex
		if panics(func() { m = ethtypes.MustNewAddress(t) }) || m == nil || hex.EncodeToString(m[:]) != hex.EncodeToString(a) {
			g.helperFail("MustNewAddress", t)
		}
		for _, bad := range []string{t[:len(t)-2], t + "00", t[:len(t)-1], t[:len(t)-1] + "g", "0X" + hex.EncodeToString(a), ""} {
			if !panics(func() { ethtypes.MustNewAddress(bad) }) {
				g.helperFail("MustNewAddress accepted a text that is not a 20-byte hex address", bad)
			}
		}
		b := r.Bytes(r.Intn(40))
		tb := []string{"", "0x"}[r.Intn(2)] + hexCase(r, b, r.Intn(3))
		var mb ethtypes.HexBytes0xPrefix
		if panics(func() { mb = ethtypes.MustNewHexBytes0xPrefix(tb) }) || hex.EncodeToString(mb) != hex.EncodeToString(b) {
			g.helperFail("MustNewHexBytes0xPrefix", tb)
		}
		for _, bad := range []string{tb + "0", tb + "zz", "0X" + hex.EncodeToString(b) + "00", "0x0x00"} {
			if !panics(func() { ethtypes.MustNewHexBytes0xPrefix(bad) }) {
				g.helperFail("MustNewHexBytes0xPrefix accepted a text that is not hex", bad)
			}
		}
	}
}
