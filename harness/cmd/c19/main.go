// Harness for C19 (pkg/ethtypes: hex/number JSON types).  Generates integers in every spelling class
// of the property's quantifier, malformed and random numeric texts, addresses and byte strings in
// every casing / prefix / length variant, runs pkg/ethtypes on them under recover(), and writes Coq
// case files that EthTypes/Run.v evaluates against the model and the specification oracles.
package main

import (
	"bytes"
	"context"
	"encoding/hex"
	"encoding/json"
	"flag"
	"fmt"
	"io"
	"math/big"
	"os"
	"path/filepath"
	"strings"

	"github.com/hyperledger/firefly-signer/pkg/ethtypes"
	"github.com/sirupsen/logrus"
	"verifharness/cv"
)

// ---------- description of a case (for replay / evidence) ----------
type desc struct {
	Kind     string `json:"kind"`            // parse | print | addr | addrprint | bytes | bytesprint | libint | libfloat | librat | lex
	Ty       int    `json:"ty,omitempty"`    // parse/print: 0 BigIntegerFromString, 1 HexInteger, 2 HexUint64
	Input    string `json:"input"`           // printable form
	InputHex string `json:"input_hex"`       // exact bytes
	Class    string `json:"class,omitempty"` // generator class
	Denotes  string `json:"denotes,omitempty"`
	Expect   int    `json:"expect,omitempty"`
	ExpHex   string `json:"expect_hex,omitempty"`
	Direct   bool   `json:"direct,omitempty"`
	Impl     string `json:"impl"`
	Key      string `json:"key,omitempty"`
	// retained-value oracles (kind retain / concurrent): the operation whose result changed and the later operation
	Op       string `json:"op,omitempty"`
	LaterOp  string `json:"later_op,omitempty"`
	LaterHex string `json:"later_hex,omitempty"`
	Where    string `json:"where,omitempty"`
}

func printable(b []byte) string {
	if len(b) > 200 {
		return fmt.Sprintf("%q...(%d bytes)", string(b[:120]), len(b))
	}
	return fmt.Sprintf("%q", string(b))
}

func coqZ(z *big.Int) string { return "(" + z.String() + ")%Z" }
func coqBool(b bool) string {
	if b {
		return "true"
	}
	return "false"
}

// ---------- oracles for encoding/json (the library itself, not firefly-signer) ----------
func lexOracle(b []byte) string {
	var i interface{}
	d := json.NewDecoder(bytes.NewReader(b))
	d.UseNumber()
	if err := d.Decode(&i); err != nil {
		return "OErr"
	}
	switch v := i.(type) {
	case json.Number:
		return "(ONum " + cv.CoqBytes([]byte(v.String())) + ")"
	case string:
		return "(OStr " + cv.CoqBytes([]byte(v)) + ")"
	default:
		return "OOther"
	}
}
func lexsOracle(b []byte) string {
	var s string
	if err := json.Unmarshal(b, &s); err != nil {
		return "None"
	}
	return "(Some " + cv.CoqBytes([]byte(s)) + ")"
}

// ---------- running the implementation ----------
type intRes struct {
	cls int
	val *big.Int
	err string
}

func (r intRes) String() string {
	switch r.cls {
	case 0:
		s := r.val.String()
		if len(s) > 120 {
			s = s[:60] + "..." + s[len(s)-20:]
		}
		return "ok " + s
	case 1:
		e := r.err
		if len(e) > 80 {
			e = e[:80]
		}
		return "error: " + e
	}
	return "PANIC"
}

// runParse: a value too large to print is replaced by a marker of the same sign (cases whose exact
// value is that large are never written as Coq cases)
func runParse(ty int, in []byte) intRes {
	r := runParseRaw(K, ty, in)
	if r.cls == 0 && r.val.BitLen() > 1<<17 {
		r.val = new(big.Int).Lsh(big.NewInt(int64(r.val.Sign())), 300)
	}
	return r
}

// runParseRaw runs one integer parse.  The object the implementation returned stays alive in the keeper k (nil: not
// retained) next to the deep copy r.val taken here; the []byte entry points get a private copy of the input that is
// checked (unmodified) and overwritten after the call.
func runParseRaw(k *keeper, ty int, in []byte) (r intRes) {
	op := fmt.Sprintf("parse%d", ty)
	var it *keptItem
	var ig *inputGuard
	r = func() (r intRes) {
		defer func() {
			if x := recover(); x != nil {
				r = intRes{cls: 2, val: new(big.Int), err: fmt.Sprint(x)}
				it = nil
			}
		}()
		switch ty {
		case 0:
			i, err := ethtypes.BigIntegerFromString(context.Background(), string(in))
			if err != nil {
				return intRes{cls: 1, val: new(big.Int), err: err.Error()}
			}
			it = watchInt("the *big.Int returned by BigIntegerFromString", i)
			return intRes{cls: 0, val: new(big.Int).Set(i)}
		case 1:
			h := new(ethtypes.HexInteger)
			var err error
			ig = guardInput(in)
			valid := json.Valid(in)
			if valid {
				err = json.Unmarshal(ig.buf, h)
			} else {
				err = h.UnmarshalJSON(ig.buf)
			}
			// the exported function underneath, called directly on a complete JSON value: the same integer (it also
			// accepts negative ones); the *big.Int it returns is retained as well
			var bi *big.Int
			if valid {
				var e0 error
				bi, e0 = ethtypes.UnmarshalBigInt(context.Background(), ig.buf)
				if (err == nil && (e0 != nil || bi.Cmp(h.BigInt()) != 0)) || (err != nil && e0 == nil && bi.Sign() >= 0) {
					return intRes{cls: 1, val: new(big.Int), err: "UnmarshalBigInt called directly differs from HexInteger.UnmarshalJSON"}
				}
				if e0 != nil {
					bi = nil
				}
			}
			if err != nil {
				it = watchInt("the *big.Int returned by UnmarshalBigInt", bi)
				return intRes{cls: 1, val: new(big.Int), err: err.Error()}
			}
			it = joinItems(op, in, "", watchInt("the HexInteger filled by UnmarshalJSON", h.BigInt()), watchInt("the *big.Int returned by UnmarshalBigInt", bi))
			return intRes{cls: 0, val: new(big.Int).Set(h.BigInt())}
		default:
			h := new(ethtypes.HexUint64)
			var err error
			ig = guardInput(in)
			if json.Valid(in) {
				err = json.Unmarshal(ig.buf, h)
			} else {
				err = h.UnmarshalJSON(ig.buf)
			}
			if err != nil {
				return intRes{cls: 1, val: new(big.Int), err: err.Error()}
			}
			snap := h.Uint64()
			it = &keptItem{what: "the HexUint64 filled by UnmarshalJSON", want: fmt.Sprint(snap),
				same: func() bool { return uint64(*h) == snap && h.Uint64OrZero() == snap }, now: func() string { return fmt.Sprint(uint64(*h)) }}
			return intRes{cls: 0, val: new(big.Int).SetUint64(snap)}
		}
	}()
	if k != nil {
		k.keep(joinItems(op, in, sumInt(r), it))
	}
	ig.done(k, op)
	k.after(op, in)
	return r
}

type gen struct {
	w       *cv.Writer
	st      *cv.Stats
	seen    map[string]bool
	sampled map[string]bool
	r       *cv.Rand
	// number of retained-value failures already copied into the statistics (capped)
	retainFails int
	// replay mode: one case per replay file (the marshal cases are not added beside their print case)
	replaying bool
}

// add writes the case and keeps the first case of every constructor/class as a sample for the evidence
func (g *gen) add(term string, d desc) {
	g.w.Add(term, d)
	k := d.Kind + "/" + d.Class
	if !g.sampled[k] && len(g.st.Samples) < 40 {
		g.sampled[k] = true
		t := term
		if len(t) > 400 {
			t = t[:400] + "..."
		}
		g.st.Samples = append(g.st.Samples, map[string]string{"class": k, "input": d.Input, "impl": d.Impl, "coq_case": t})
	}
}

func (g *gen) distinct(key string, nontrivial bool) {
	if !g.seen[key] {
		g.seen[key] = true
		if nontrivial {
			g.st.Distinct++
		}
	}
}

// den: the text is a spelling of m*10^e (nil m = no known denotation)
// tooBig: the exact rational value of the text has more than 20000 bits in numerator or denominator;
// the model would have to expand that power inside Coq, so such texts are only checked on the Go side
func tooBig(text string) bool {
	defer func() { recover() }()
	if i := strings.IndexAny(text, "eEpP"); i >= 0 {
		// exponent digits: cheap pre-check so that big.Rat is not asked to expand a gigantic power either
		ds := strings.TrimLeft(text[i+1:], "+-_0")
		n := 0
		for n < len(ds) && (ds[n] >= '0' && ds[n] <= '9' || ds[n] == '_') {
			n++
		}
		if n >= 5 {
			return true
		}
	}
	rt, ok := new(big.Rat).SetString(text)
	return ok && (rt.Num().BitLen() > 20000 || rt.Denom().BitLen() > 20000)
}

func (g *gen) addParse(ty int, in []byte, class string, m *big.Int, e int64) {
	r := runParse(ty, in)
	if huge := hugeText(in); huge {
		// rejected before any expansion in the model when |exp| > 10^6; otherwise skip the Coq side
		if !rejectsEarly(in) {
			g.st.Hit("parse:skipped-huge-exponent")
			if r.cls == 2 {
				g.st.ImplFailures = append(g.st.ImplFailures, map[string]interface{}{"what": "integer parse panicked", "ty": ty, "input": printable(in)})
			}
			return
		}
	}
	den := "None"
	dd := ""
	if m != nil {
		den = fmt.Sprintf("(Some (%s, (%d)%%Z))", coqZ(m), e)
		dd = fmt.Sprintf("%s * 10^%d", m.String(), e)
		if len(dd) > 200 {
			dd = dd[:100] + "..." + dd[len(dd)-40:]
		}
	}
	tok := "OErr"
	if ty != 0 {
		tok = lexOracle(in)
	}
	g.st.Hit(fmt.Sprintf("parse:ty%d:%s:class=%d", ty, class, r.cls))
	if r.cls == 2 {
		g.st.ImplFailures = append(g.st.ImplFailures, map[string]interface{}{"what": "integer parse panicked", "ty": ty, "input": printable(in), "input_hex": hex.EncodeToString(in)})
	}
	g.distinct(fmt.Sprintf("p%d|%s", ty, in), len(in) > 1)
	g.add(fmt.Sprintf("CParse %d %s %s %s %d %s", ty, cv.CoqBytes(in), tok, den, r.cls, coqZ(r.val)),
		desc{Kind: "parse", Ty: ty, Input: printable(in), InputHex: hex.EncodeToString(in), Class: class, Denotes: dd, Impl: r.String()})
	// the assumed json fragment is validated on every json input
	if ty != 0 && g.r.Intn(4) == 0 {
		g.addLex(in)
	}
}

func (g *gen) addLex(in []byte) {
	g.st.Hit("lex")
	g.add(fmt.Sprintf("CLex %s %s %s", cv.CoqBytes(in), lexOracle(in), lexsOracle(in)),
		desc{Kind: "lex", Input: printable(in), InputHex: hex.EncodeToString(in), Impl: "encoding/json: " + lexOracle(in)})
}

// text in all entry points: direct, JSON string for both types, bare JSON number when it is one
func (g *gen) addText(text string, class string, m *big.Int, e int64) {
	g.addParse(0, []byte(text), class, m, e)
	q, _ := json.Marshal(text) // a JSON string whose value is text (escapes chosen by encoding/json)
	if plainASCII(text) {
		q = []byte(`"` + text + `"`)
	}
	g.addParse(1, q, class+"/str", m, e)
	g.addParse(2, q, class+"/str", m, e)
	if isJSONNumber(text) {
		g.addParse(1, []byte(text), class+"/num", m, e)
		g.addParse(2, []byte(text), class+"/num", m, e)
	}
}

func plainASCII(s string) bool {
	for i := 0; i < len(s); i++ {
		if s[i] < 0x20 || s[i] > 0x7e || s[i] == '"' || s[i] == '\\' {
			return false
		}
	}
	return true
}

func isJSONNumber(s string) bool {
	if !json.Valid([]byte(s)) || len(s) == 0 {
		return false
	}
	c := s[0]
	return c == '-' || (c >= '0' && c <= '9')
}

func (g *gen) addPrint(ty int, z *big.Int) {
	back := intRes{cls: 2, val: new(big.Int)}
	out, err := runPrint(K, ty, z)
	if err != nil {
		g.st.ImplFailures = append(g.st.ImplFailures, map[string]interface{}{"what": "integer marshal failed: " + err.Error(), "ty": ty, "value": z.String()})
		return
	}
	back = runParse(ty, out)
	g.st.Hit(fmt.Sprintf("print:ty%d:bits=%s", ty, bitBucket(z)))
	g.distinct(fmt.Sprintf("P%d|%s", ty, z), z.BitLen() > 3)
	g.add(fmt.Sprintf("CPrint %d %s %s %d %s", ty, coqZ(z), cv.CoqBytes(out), back.cls, coqZ(back.val)),
		desc{Kind: "print", Ty: ty, Input: z.String(), InputHex: hex.EncodeToString(z.Bytes()), Impl: string(out) + " back: " + back.String()})
}

func bitBucket(z *big.Int) string {
	n := z.BitLen()
	switch {
	case n == 0:
		return "0"
	case n <= 8:
		return "1..8"
	case n <= 53:
		return "9..53"
	case n <= 63:
		return "54..63"
	case n == 64:
		return "64"
	case n <= 128:
		return "65..128"
	case n <= 256:
		return "129..256"
	default:
		return ">256"
	}
}

// the text inside a JSON string or the bare text
func innerText(in []byte) string {
	var v string
	if len(in) > 0 && in[0] == '"' && json.Unmarshal(in, &v) == nil {
		return v
	}
	return strings.TrimSpace(string(in))
}
func hugeText(in []byte) bool { return tooBig(innerText(in)) }

// exponent magnitude above 10^6 (five: 10^7 for a binary exponent): math/big refuses before expanding, and so does the model
func rejectsEarly(in []byte) bool {
	t := innerText(in)
	i := strings.IndexAny(t, "eEpP")
	if i < 0 {
		return false
	}
	ds := strings.TrimLeft(t[i+1:], "+-")
	ds = strings.TrimLeft(ds, "0")
	n := 0
	for n < len(ds) && ds[n] >= '0' && ds[n] <= '9' {
		n++
	}
	return n >= 9 && n == len(ds)
}

// ---------- spellings ----------
func pow10(k int64) *big.Int { return new(big.Int).Exp(big.NewInt(10), big.NewInt(k), nil) }

func mixCase(r *cv.Rand, s string, mode int) string {
	b := []byte(s)
	for i := range b {
		up := false
		switch mode {
		case 1:
			up = true
		case 2:
			up = r.Bool()
		}
		if up && b[i] >= 'a' && b[i] <= 'f' {
			b[i] -= 32
		}
	}
	return string(b)
}

// every spelling of the (possibly negative) integer n that the quantifier lists
func (g *gen) spellings(n *big.Int) {
	r := g.r
	abs := new(big.Int).Abs(n)
	neg := n.Sign() < 0
	sign := ""
	if neg {
		sign = "-"
	}
	// canonical decimal (also the plain JSON number)
	g.addText(n.String(), "dec", n, 0)
	// hex, three casings, optional leading zeros (negative hex: spec oracle through C19_signed_hex_exact)
	hx := abs.Text(16)
	for mode := 0; mode < 3; mode++ {
		t := "0x" + mixCase(r, hx, mode)
		if neg {
			g.addText("-"+t, "hex-neg", n, 0) // denotation -abs: C19_signed_hex_exact (an error for the JSON types, -abs for the text entry point)
		} else {
			g.addText(t, "hex", n, 0)
		}
	}
	if !neg {
		g.addText("0x"+strings.Repeat("0", 1+r.Intn(3))+hx, "hex-lead0", n, 0)
		g.addText("0X"+mixCase(r, hx, 2), "hex-0X", n, 0) // upper-case prefix: C19_signed_hex_exact
		if n.Sign() == 0 {
			g.addText("-0x0", "hex-neg-zero", n, 0) // minus zero is zero: accepted
			g.addText("-0X00", "hex-neg-zero", n, 0)
		}
	}
	// exponent forms
	ds := abs.String()
	// d.ddd e+k with the fraction exactly consumed
	if len(ds) > 1 {
		k := int64(len(ds) - 1)
		es := []string{"e", "E", "e+", "E+"}[r.Intn(4)]
		g.addText(fmt.Sprintf("%s%s.%s%s%d", sign, ds[:1], ds[1:], es, k), "exp-frac-exact", n, 0)
		// one fractional digit too many for the exponent: denotes n/10
		g.addText(fmt.Sprintf("%s%s.%s%s%d", sign, ds[:1], ds[1:], es, k-1), "exp-frac-over", n, -1)
		// split somewhere else
		p := 1 + r.Intn(len(ds)-1)
		g.addText(fmt.Sprintf("%s%s.%se%d", sign, ds[:p], ds[p:], len(ds)-p), "exp-frac-exact", n, 0)
		// more exponent than fraction digits
		x := int64(1 + r.Intn(5))
		g.addText(fmt.Sprintf("%s%s.%se%d", sign, ds[:p], ds[p:], int64(len(ds)-p)+x), "exp-frac-under", n, x)
	}
	// trailing zeros moved into the exponent: D e+k
	{
		tz := 0
		for tz < len(ds)-1 && ds[len(ds)-1-tz] == '0' {
			tz++
		}
		g.addText(fmt.Sprintf("%s%se%d", sign, ds[:len(ds)-tz], tz), "exp-int", n, 0)
		g.addText(fmt.Sprintf("%s%se0", sign, ds), "exp-e0", n, 0)
		g.addText(fmt.Sprintf("%s%sE-0", sign, ds), "exp-e0", n, 0)
		// negative exponent compensated by written zeros: n*10^k e-k
		k := 1 + r.Intn(4)
		g.addText(fmt.Sprintf("%s%s%se-%d", sign, ds, strings.Repeat("0", k), k), "exp-neg-exact", n, 0)
		// negative exponent not compensated: n e-k  (integer only when n has k trailing zeros)
		g.addText(fmt.Sprintf("%s%se-%d", sign, ds, k), "exp-neg", n, -int64(k))
	}
	// fractional texts
	g.addText(sign+ds+".0", "frac-zero", n, 0)
	g.addText(sign+ds+"."+strings.Repeat("0", 1+r.Intn(90)), "frac-zero", n, 0)
	{
		// n.5 : m = 10n+5 (sign applied), e = -1
		m := new(big.Int).Mul(abs, big.NewInt(10))
		m.Add(m, big.NewInt(5))
		if neg {
			m.Neg(m)
		}
		g.addText(sign+ds+".5", "frac-half", m, -1)
		// n.000…0001 with the 1 far below 2^-256 of the value (D19a)
		k := int64(78 + r.Intn(40))
		m2 := new(big.Int).Mul(abs, pow10(k))
		m2.Add(m2, big.NewInt(1))
		if neg {
			m2.Neg(m2)
		}
		g.addText(sign+ds+"."+strings.Repeat("0", int(k-1))+"1", "frac-tiny", m2, -k)
	}
}

// ---------- addresses and byte strings ----------
type bytesRes struct {
	cls int
	out []byte
	err string
}

func (r bytesRes) String() string {
	switch r.cls {
	case 0:
		return "ok " + cv.Compress(r.out).Describe()
	case 1:
		return "error: " + r.err
	}
	return "PANIC"
}

func runAddr(k *keeper, direct bool, in []byte) (r bytesRes) {
	op := "addr-json"
	if direct {
		op = "addr-direct"
	}
	var it *keptItem
	var ig *inputGuard
	r = func() (r bytesRes) {
		defer func() {
			if x := recover(); x != nil {
				r = bytesRes{cls: 2, err: fmt.Sprint(x)}
				it = nil
			}
		}()
		a := new(ethtypes.Address0xHex)
		var n1 *ethtypes.Address0xHex
		var n2 *ethtypes.AddressWithChecksum
		c, p := new(ethtypes.AddressWithChecksum), new(ethtypes.AddressPlainHex)
		var err error
		if direct {
			err = a.SetString(string(in))
			// the constructors are the same parse
			var e1, e2 error
			n1, e1 = ethtypes.NewAddress(string(in))
			n2, e2 = ethtypes.NewAddressWithChecksum(string(in))
			if (e1 == nil) != (err == nil) || (e2 == nil) != (err == nil) || (err == nil && (!bytes.Equal(n1[:], a[:]) || !bytes.Equal(n2[:], a[:]))) {
				return bytesRes{cls: 1, err: "NewAddress/NewAddressWithChecksum differ from SetString"}
			}
			if err == nil {
				if m := ethtypes.MustNewAddress(string(in)); *m != *a {
					return bytesRes{cls: 1, err: "MustNewAddress differs from SetString"}
				}
			}
		} else {
			ig = guardInput(in)
			if json.Valid(in) {
				err = json.Unmarshal(ig.buf, a)
			} else {
				err = a.UnmarshalJSON(ig.buf)
			}
		}
		if err != nil {
			return bytesRes{cls: 1, err: err.Error()}
		}
		// the two sibling types must parse identically
		if !direct {
			var e1, e2 error
			if json.Valid(in) {
				e1, e2 = json.Unmarshal(ig.buf, c), json.Unmarshal(ig.buf, p)
			} else {
				e1, e2 = c.UnmarshalJSON(ig.buf), p.UnmarshalJSON(ig.buf)
			}
			if e1 != nil || e2 != nil || !bytes.Equal(c[:], a[:]) || !bytes.Equal(p[:], a[:]) {
				return bytesRes{cls: 1, err: "AddressWithChecksum/AddressPlainHex parse differs from Address0xHex"}
			}
		}
		snap := *a
		it = &keptItem{what: "the address filled by SetString / UnmarshalJSON / returned by NewAddress", want: hex.EncodeToString(snap[:]),
			same: func() bool {
				if direct {
					return *a == snap && *n1 == snap && [20]byte(*n2) == [20]byte(snap)
				}
				return *a == snap && [20]byte(*c) == [20]byte(snap) && [20]byte(*p) == [20]byte(snap)
			},
			now: func() string {
				if direct {
					return hex.EncodeToString(a[:]) + " " + hex.EncodeToString(n1[:]) + " " + hex.EncodeToString(n2[:])
				}
				return hex.EncodeToString(a[:]) + " " + hex.EncodeToString(c[:]) + " " + hex.EncodeToString(p[:])
			}}
		if direct {
			// the constructors return pointers: the caller may write through them
			it.scribble = func() { scribbleBytes(n1[:]); scribbleBytes(n2[:]) }
		}
		return bytesRes{cls: 0, out: append([]byte{}, a[:]...)}
	}()
	if k != nil {
		k.keep(joinItems(op, in, r.sum(), it))
	}
	ig.done(k, op)
	k.after(op, in)
	return r
}

func (g *gen) addAddr(direct bool, in []byte, class string, expect int, exp []byte) {
	r := runAddr(K, direct, in)
	lexs := "None"
	if !direct {
		lexs = lexsOracle(in)
	}
	g.st.Hit(fmt.Sprintf("addr:%s:class=%d", class, r.cls))
	if r.cls == 2 {
		g.st.ImplFailures = append(g.st.ImplFailures, map[string]interface{}{"what": "address parse panicked", "input": printable(in), "input_hex": hex.EncodeToString(in)})
	}
	g.distinct(fmt.Sprintf("a%v|%s", direct, in), true)
	g.add(fmt.Sprintf("CAddr %s %s %s %d %s %d %s", coqBool(direct), cv.CoqBytes(in), lexs, r.cls, cv.CoqBytes(r.out), expect, cv.CoqBytes(exp)),
		desc{Kind: "addr", Direct: direct, Input: printable(in), InputHex: hex.EncodeToString(in), Class: class, Expect: expect, ExpHex: hex.EncodeToString(exp), Impl: r.String()})
	if !direct && g.r.Intn(4) == 0 {
		g.addLex(in)
	}
}

func (g *gen) addAddrPrint(a []byte) {
	s0, sc, sp, err := runAddrPrint(K, a)
	if err != nil {
		g.st.ImplFailures = append(g.st.ImplFailures, map[string]interface{}{"what": "address print failed: " + err.Error(), "address": hex.EncodeToString(a)})
	}
	g.st.Hit("addrprint")
	g.distinct("ap|"+string(a), true)
	g.add(fmt.Sprintf("CAddrPrint %s %s %s %s", cv.CoqBytes(a), cv.CoqBytes([]byte(s0)), cv.CoqBytes([]byte(sc)), cv.CoqBytes([]byte(sp))),
		desc{Kind: "addrprint", Input: hex.EncodeToString(a), InputHex: hex.EncodeToString(a), Impl: s0 + " " + sc + " " + sp})
	if !g.replaying {
		g.addAddrMarshal(a) // wave 6: MarshalJSON of the three address types as its own Coq-side case
	}
}

func runBytes(k *keeper, in []byte) (r bytesRes) {
	var it *keptItem
	ig := guardInput(in)
	r = func() (r bytesRes) {
		defer func() {
			if x := recover(); x != nil {
				r = bytesRes{cls: 2, err: fmt.Sprint(x)}
				it = nil
			}
		}()
		var h ethtypes.HexBytesPlain
		var h0 ethtypes.HexBytes0xPrefix
		var e1, e2 error
		if json.Valid(in) {
			e1, e2 = json.Unmarshal(ig.buf, &h), json.Unmarshal(ig.buf, &h0)
		} else {
			e1, e2 = h.UnmarshalJSON(ig.buf), h0.UnmarshalJSON(ig.buf)
		}
		if (e1 == nil) != (e2 == nil) {
			return bytesRes{cls: 1, err: "HexBytesPlain and HexBytes0xPrefix disagree"}
		}
		if e1 != nil {
			var str string
			if json.Unmarshal(in, &str) == nil {
				if _, e := ethtypes.NewHexBytes0xPrefix(str); e == nil {
					return bytesRes{cls: 0, out: []byte("NewHexBytes0xPrefix accepted what UnmarshalJSON rejected")}
				}
			}
			return bytesRes{cls: 1, err: e1.Error()}
		}
		if !bytes.Equal(h, h0) {
			return bytesRes{cls: 1, err: "HexBytesPlain and HexBytes0xPrefix disagree"}
		}
		lives := [][]byte{h, h0}
		var str string
		if json.Unmarshal(in, &str) == nil {
			n, e := ethtypes.NewHexBytes0xPrefix(str)
			if e != nil || !bytes.Equal(n, h) {
				return bytesRes{cls: 1, err: "NewHexBytes0xPrefix differs from UnmarshalJSON"}
			}
			m := ethtypes.MustNewHexBytes0xPrefix(str)
			if !bytes.Equal(m, h) {
				return bytesRes{cls: 1, err: "MustNewHexBytes0xPrefix differs from UnmarshalJSON"}
			}
			lives = append(lives, n, m)
		}
		it = watchBytes("the HexBytes filled by UnmarshalJSON / returned by NewHexBytes0xPrefix", lives...)
		return bytesRes{cls: 0, out: append([]byte{}, h...)}
	}()
	if k != nil {
		k.keep(joinItems("bytes", in, r.sum(), it))
	}
	ig.done(k, "bytes")
	k.after("bytes", in)
	return r
}

func (g *gen) addBytes(in []byte, class string, expect int, exp []byte) {
	r := runBytes(K, in)
	g.st.Hit(fmt.Sprintf("bytes:%s:class=%d", class, r.cls))
	if r.cls == 2 {
		g.st.ImplFailures = append(g.st.ImplFailures, map[string]interface{}{"what": "hex bytes parse panicked", "input": printable(in), "input_hex": hex.EncodeToString(in)})
	}
	g.distinct("b|"+string(in), len(in) > 2)
	g.add(fmt.Sprintf("CBytes %s %s %d %s %d %s", cv.CoqBytes(in), lexsOracle(in), r.cls, cv.CoqBytes(r.out), expect, cv.CoqBytes(exp)),
		desc{Kind: "bytes", Input: printable(in), InputHex: hex.EncodeToString(in), Class: class, Expect: expect, ExpHex: hex.EncodeToString(exp), Impl: r.String()})
}

func (g *gen) addBytesPrint(h []byte) {
	sp, s0, err := runBytesPrint(K, h)
	if err != nil {
		g.st.ImplFailures = append(g.st.ImplFailures, map[string]interface{}{"what": "hex bytes print failed: " + err.Error(), "bytes": hex.EncodeToString(h)})
	}
	g.st.Hit(fmt.Sprintf("bytesprint:len=%s", lenBucket(len(h))))
	g.distinct("bp|"+string(h), len(h) > 0)
	g.add(fmt.Sprintf("CBytesPrint %s %s %s", cv.CoqBytes(h), cv.CoqBytes([]byte(sp)), cv.CoqBytes([]byte(s0))),
		desc{Kind: "bytesprint", Input: cv.Compress(h).Describe(), InputHex: hex.EncodeToString(h), Impl: "len " + fmt.Sprint(len(sp))})
	if !g.replaying {
		g.addBytesMarshal(h) // wave 6: MarshalJSON of the two byte-string types as its own Coq-side case
	}
}

func lenBucket(n int) string {
	switch {
	case n == 0:
		return "0"
	case n == 1:
		return "1"
	case n < 20:
		return "2..19"
	case n == 20:
		return "20"
	case n <= 32:
		return "21..32"
	case n < 1024:
		return "33..1023"
	default:
		return "1024"
	}
}

// render bytes as hex in a casing mode: 0 lower, 1 upper, 2 random mix
func hexCase(r *cv.Rand, b []byte, mode int) string { return mixCase(r, hex.EncodeToString(b), mode) }

// ---------- the math/big functions the model contains, called directly ----------
func (g *gen) addLib(text string) {
	in := []byte(text)
	func() {
		defer func() { recover() }()
		i, ok := new(big.Int).SetString(text, 0)
		if !ok {
			i = new(big.Int)
		}
		g.add(fmt.Sprintf("CLibInt %s %s %s", cv.CoqBytes(in), coqBool(ok), coqZ(i)),
			desc{Kind: "libint", Input: printable(in), InputHex: hex.EncodeToString(in), Impl: fmt.Sprintf("big.Int.SetString(s,0): ok=%v %s", ok, short(i.String()))})
		g.st.Hit(fmt.Sprintf("lib:int:ok=%v", ok))
	}()
	func() {
		defer func() { recover() }()
		_, _, err := big.ParseFloat(text, 10, 256, big.ToNearestEven)
		g.add(fmt.Sprintf("CLibFloat %s %s", cv.CoqBytes(in), coqBool(err == nil)),
			desc{Kind: "libfloat", Input: printable(in), InputHex: hex.EncodeToString(in), Impl: fmt.Sprintf("big.ParseFloat(s,10,256): err=%v", err)})
		g.st.Hit(fmt.Sprintf("lib:float:ok=%v", err == nil))
	}()
	func() {
		defer func() { recover() }()
		rt, ok := new(big.Rat).SetString(text)
		isint := false
		num := new(big.Int)
		if ok {
			isint = rt.IsInt()
			if isint {
				num = rt.Num()
			}
		}
		if (ok && (rt.Num().BitLen() > 20000 || rt.Denom().BitLen() > 20000)) || (tooBig(text) && !rejectsEarly(in)) {
			return // the model would have to expand a huge power inside Coq
		}
		g.add(fmt.Sprintf("CLibRat %s %s %s %s", cv.CoqBytes(in), coqBool(ok), coqBool(isint), coqZ(num)),
			desc{Kind: "librat", Input: printable(in), InputHex: hex.EncodeToString(in), Impl: fmt.Sprintf("big.Rat.SetString(s): ok=%v isInt=%v %s", ok, isint, short(num.String()))})
		g.st.Hit(fmt.Sprintf("lib:rat:ok=%v:int=%v", ok, isint))
	}()
}

func short(s string) string {
	if len(s) > 100 {
		return s[:50] + "..." + s[len(s)-20:]
	}
	return s
}

var malformed = []string{
	"", " ", "0x", "0X", "0b", "0o", "+", "-", "+-1", "--1", "+5", "+0", "-0", "00", "000", " 5", "5 ", "\t5", "5\n",
	"1_000", "1__0", "_1", "1_", "0_1", "0_", "0x_1f", "0x1_f", "0x1f_", "0x__1", "0b101", "0B11", "0b102", "0o17", "0O17", "0o18",
	"017", "010", "08", "09", "0789", "007", "0x1g", "0xGG", "0xg", "x10", "1x0", "0x-1", "0x+1", "0x0x1", "1e", "1e+", "1e-", "e5", "E5", ".5", "5.", ".", "-.5", "+.5e1", "1.2.3",
	"1e5e5", "1e5.0", "1.e2", ".5e1", "5.e-1", "Inf", "inf", "+Inf", "-Inf", "+inf", "-inf", "INF", "Infinity", "infx", "NaN", "nan",
	"1p5", "1P5", "1p-1", "1P+2", "0p0", "3p0", "1.5p1", "0x1p4", "0x1.8p1", "1/2", "4/2", "4/0", "/", "1/", "/1",
	"\xef\xbc\x91\xef\xbc\x92", "١٢", "1\x00", "\x001", "12a", "a12", "0xABCDEFabcdef0123456789", "1e_5", "1e5_", "1e1_0", "1_0e1", "1_0.5",
	"1e9223372036854775807", "1e9223372036854775808", "1e-9223372036854775808", "1e-9223372036854775809", "0e9223372036854775808",
	"0e99999999999", "0.0e-99999999999", "0e-1", "-0e5", "-0.0", "0.000", "00.5", "01.5", "01e1", "00e0", "0e0",
	"1e1000001", "1e-1000001", "1e1000002", "5e-1000001", "1e2147483646", "1e2147483647", "1e2147483648", "1e-2147483648", "1e-2147483649", "1e-2147483650",
	"2e2147483646", "9e2147483646", "10e2147483645", "0.1e2147483647", "0.1e2147483648", "10e-2147483650", "10e-2147483651", "100e-2147483652",
	"1p10000001", "1p-10000001", "1p2147483646", "1p2147483647", "1p-2147483649", "1p-2147483650",
	"1e400", "1e1000", "123456789e300", "1e-400", "1.5e400", "-1e400",
	"0x10000000000000000", "18446744073709551616", "18446744073709551615", "-1", "-18446744073709551615",
	"1,5", "1 000", "1'000", "0x 1", "0 x1", "٣", "true", "null", "[]", "{}",
}

func (g *gen) randomNumericText() string {
	r := g.r
	const alpha = "0123456789" + "0123456789" + "abcdefABCDEF" + "xXoObB" + "__..++--eeEEpP" + "/ gGzZ"
	n := r.Intn(9)
	if r.Intn(8) == 0 {
		n = r.Intn(24)
	}
	b := make([]byte, n)
	for i := range b {
		b[i] = alpha[r.Intn(len(alpha))]
	}
	s := string(b)
	// bias towards nearly-valid shapes
	switch r.Intn(6) {
	case 0:
		s = "0x" + s
	case 1:
		s = "0" + s
	case 2:
		s = fmt.Sprintf("%d", r.Intn(1000)) + s
	case 3:
		s = []string{"-", "+"}[r.Intn(2)] + s
	}
	return s
}

// a random syntactically valid decimal/exponent text (small exponents so that the exact value is cheap)
func (g *gen) randomSci() (string, *big.Int, int64) {
	r := g.r
	nd := 1 + r.Intn(30)
	ip := make([]byte, nd)
	for i := range ip {
		ip[i] = byte('0' + r.Intn(10))
	}
	if nd > 1 && ip[0] == '0' {
		ip[0] = '1'
	}
	for i := nd - 1; i > 0 && r.Intn(3) != 0; i-- {
		ip[i] = '0' // trailing zeros make negative exponents interesting
	}
	fp := ""
	if r.Bool() {
		nf := 1 + r.Intn(12)
		f := make([]byte, nf)
		for i := range f {
			f[i] = byte('0' + r.Intn(10))
		}
		if r.Bool() {
			for i := range f {
				if r.Intn(3) != 0 {
					f[i] = '0'
				}
			}
		}
		fp = string(f)
	}
	neg := r.Intn(5) == 0
	exp := int64(0)
	text := string(ip)
	if fp != "" {
		text += "." + fp
	}
	if r.Intn(4) != 0 {
		exp = int64(r.Intn(40)) - 15
		es := []string{"e", "E"}[r.Intn(2)]
		sg := ""
		if exp >= 0 && r.Bool() {
			sg = "+"
		}
		text += fmt.Sprintf("%s%s%d", es, sg, exp)
		if exp == 0 && sg == "" && r.Bool() {
			text = text[:len(text)-1] + "-0"
		}
	}
	m, _ := new(big.Int).SetString(string(ip)+fp, 10)
	if neg {
		text = "-" + text
		m.Neg(m)
	}
	return text, m, exp - int64(len(fp))
}

func main() {
	out := flag.String("out", "", "output directory")
	tier := flag.String("tier", "quick", "quick|thorough")
	replay := flag.String("replay", "", "replay file")
	flag.Parse()
	if *out == "" {
		fmt.Fprintln(os.Stderr, "need -out")
		os.Exit(2)
	}
	os.MkdirAll(*out, 0o755)
	logrus.SetOutput(io.Discard) // BigIntegerFromString logs every rejected text
	header := "From Coq Require Import String List NArith ZArith Uint63.\nFrom FFS Require Import Base.Bytes Base.Lit EthTypes.Run.\nImport ListNotations.\nOpen Scope string_scope. Open Scope N_scope."
	st := cv.NewStats()
	g := &gen{w: cv.NewWriter(*out, "C19", header, "case", "mismatches", 16), st: st, seen: map[string]bool{}, sampled: map[string]bool{}, r: cv.NewRand(19)}

	if *replay != "" {
		raw, err := os.ReadFile(*replay)
		if err != nil {
			panic(err)
		}
		var rp struct {
			Case desc `json:"case"`
		}
		json.Unmarshal(raw, &rp)
		g.w = cv.NewWriter(*out, "C19", header, "case", "mismatches", 1)
		g.replaying = true
		in, _ := hex.DecodeString(rp.Case.InputHex)
		exp, _ := hex.DecodeString(rp.Case.ExpHex)
		switch rp.Case.Kind {
		case "parse":
			g.addParse(rp.Case.Ty, in, "replay", nil, 0)
			for ty := 0; ty < 3; ty++ {
				fmt.Printf("implementation ty=%d on %s: %s\n", ty, printable(in), runParse(ty, in))
			}
		case "print":
			z := new(big.Int).SetBytes(in)
			g.addPrint(rp.Case.Ty, z)
		case "addr":
			g.addAddr(rp.Case.Direct, in, "replay", rp.Case.Expect, exp)
			fmt.Printf("implementation on %s: %s\n", printable(in), runAddr(K, rp.Case.Direct, in))
		case "addrprint":
			g.addAddrPrint(in)
		case "bytes":
			g.addBytes(in, "replay", rp.Case.Expect, exp)
			fmt.Printf("implementation on %s: %s\n", printable(in), runBytes(K, in))
		case "bytesprint":
			g.addBytesPrint(in)
		case "addrmarshal":
			g.addAddrMarshal(in)
		case "bytesmarshal":
			g.addBytesMarshal(in)
		case "lex":
			g.addLex(in)
		case "retain":
			// the pair (operation whose result changed, later operation), then the final comparison and the overwrite test
			later, _ := hex.DecodeString(rp.Case.LaterHex)
			fmt.Printf("%s on %s: %s\n", rp.Case.Op, printable(in), clip(runOp(K, rp.Case.Op, in)))
			if rp.Case.LaterOp != "" && !strings.HasPrefix(rp.Case.LaterOp, "(") {
				fmt.Printf("then %s on %s: %s\n", rp.Case.LaterOp, printable(later), clip(runOp(K, rp.Case.LaterOp, later)))
			}
			K.finish()
			g.mergeKeeper(K)
			for _, f := range K.fails {
				fmt.Printf("retained value check failed: %v\n", f)
			}
			if rp.Case.Where != "" {
				// seen in the concurrent section: the pair alone need not show it
				g.concurrent(8, 1500)
			}
		case "concurrent":
			g.concurrent(8, 1500)
		case "helper":
			g.addHelpers()
			g.mergeKeeper(K)
		default:
			g.addLib(string(in))
		}
		g.w.Flush()
		st.Evaluations = g.w.Count()
		st.Write(filepath.Join(*out, "stats_C19.json"))
		return
	}

	thorough := *tier == "thorough"
	r := g.r

	// ---------- integers ----------
	var ints []*big.Int
	ints = append(ints, big.NewInt(0), big.NewInt(1), big.NewInt(9), big.NewInt(10), big.NewInt(15), big.NewInt(16), big.NewInt(100), big.NewInt(1000000))
	for _, k := range []uint{8, 16, 31, 32, 53, 63, 64, 128, 255, 256, 260} {
		p := new(big.Int).Lsh(big.NewInt(1), k)
		ints = append(ints, new(big.Int).Sub(p, big.NewInt(1)), p, new(big.Int).Add(p, big.NewInt(1)))
	}
	// 10^k: values whose decimal text has many trailing zeros
	for _, k := range []int64{1, 15, 19, 20, 77, 78} {
		ints = append(ints, pow10(k))
	}
	nBoundary := len(ints) // every boundary value also as a negative
	nRand := 24
	if thorough {
		nRand = 600
	}
	for i := 0; i < nRand; i++ {
		bits := 1 + r.Intn(300)
		z := new(big.Int).SetBytes(r.Bytes((bits + 7) / 8))
		z.Rsh(z, uint(8*((bits+7)/8)-bits))
		z.SetBit(z, bits-1, 1)
		ints = append(ints, z)
	}
	for i, z := range ints {
		g.spellings(z)
		if z.Sign() > 0 && (i < nBoundary || i%2 == 0 || thorough) {
			g.spellings(new(big.Int).Neg(z))
		}
		g.addPrint(1, z)
		if z.IsUint64() {
			g.addPrint(2, z)
		}
	}
	// HexUint64 print over the whole 64-bit range
	for i := 0; i < 64; i++ {
		z := new(big.Int).SetUint64(r.U64() >> uint(r.Intn(64)))
		g.addPrint(2, z)
		g.addPrint(1, z)
	}
	// random valid decimal / exponent texts with a known exact value
	nSci := 250
	if thorough {
		nSci = 6000
	}
	for i := 0; i < nSci; i++ {
		t, m, e := g.randomSci()
		g.addText(t, "sci-random", m, e)
	}
	// ---------- malformed and random texts (model against implementation, and the math/big model directly) ----------
	for _, s := range malformed {
		g.addText(s, "malformed", nil, 0)
		g.addLib(s)
	}
	nTxt := 500
	if thorough {
		nTxt = 12000
	}
	for i := 0; i < nTxt; i++ {
		s := g.randomNumericText()
		g.addParse(0, []byte(s), "random-text", nil, 0)
		g.addLib(s)
		if i%5 == 0 {
			g.addText(s, "random-text", nil, 0)
		}
	}
	for i := 0; i < 60; i++ {
		t, _, _ := g.randomSci()
		g.addLib(t)
	}
	// exhaustive sweep: every text up to length 3 (4 in the thorough tier) over a small numeric alphabet, through
	// BigIntegerFromString and through math/big directly - this walks every transition of nat.scan / scanExponent
	{
		alpha := "019afFxXbo_.+-eEpP/ "
		maxLen := 3
		if thorough {
			alpha = "019afxbo_.+-eEp/"
			maxLen = 4
		}
		n := 0
		var rec func(cur []byte)
		rec = func(cur []byte) {
			if len(cur) > 0 {
				g.addParse(0, cur, "sweep", nil, 0)
				g.addLib(string(cur))
				n++
			}
			if len(cur) == maxLen {
				return
			}
			for i := 0; i < len(alpha); i++ {
				rec(append(append([]byte{}, cur...), alpha[i]))
			}
		}
		rec(nil)
		st.Extra["sweep_alphabet"] = alpha
		st.Extra["sweep_max_len"] = maxLen
		st.Extra["sweep_texts"] = n
	}
	// JSON-level inputs of the integer types
	for _, j := range []string{`null`, `true`, `false`, `{}`, `[]`, `[1]`, `{"a":1}`, `""`, `" "`, `"12"`, `"\x31"`, `"1\n"`, `"0x1f"`, ` 12 `, "\t\"0x10\"\n",
		`12 13`, `"12" x`, `12,`, `{!badJSON`, ``, `"`, `"12`, `12"`, `'12'`, `0x10`, `+5`, `.5`, `5.`, `01`, `-`, `1e`, `1.0`, `-1.0`, `1.5`, `1e2`, `1E+2`, `-0`, `-0.0`, `0e5`, `1e-0`,
		`"😀"`, `"\xff"`, `1e400`, `"1e400"`, `18446744073709551615`, `18446744073709551616`, `1.8446744073709551615e19`, `1.8446744073709551616e19`, `18446744073709551615.0`,
		`9007199254740993`, `9007199254740992.0`, `9223372036854775808`, `-9223372036854775809`} {
		g.addParse(1, []byte(j), "json", nil, 0)
		g.addParse(2, []byte(j), "json", nil, 0)
		g.addLex([]byte(j))
	}
	// Go-side oracles for texts whose exact value is too large to expand inside Coq
	for _, c := range []struct {
		text string
		ok   bool
	}{{"1e-2147483649", false}, {"1e-2147483648", false}, {"1e-1000000", false}, {"1e-999999", false}} {
		for ty := 0; ty < 3; ty++ {
			in := []byte(c.text)
			if rr := runParse(ty, in); (rr.cls == 0) != c.ok {
				st.ImplFailures = append(st.ImplFailures, map[string]interface{}{"what": "a text that does not denote an integer was accepted (value " + short(rr.val.String()) + ")", "ty": ty, "input": c.text})
			}
		}
		st.Hit("go-oracle:tiny")
	}
	// beyond math/big's limit for exact expansion: an error, or (should the limit move) the exact value - never a rounded one
	for _, k := range []int64{1000001, 1500000} {
		text := fmt.Sprintf("1e%d", k)
		rr := runParseRaw(K, 0, []byte(text))
		if rr.cls == 2 || (rr.cls == 0 && rr.val.Cmp(pow10(k)) != 0) {
			st.ImplFailures = append(st.ImplFailures, map[string]interface{}{"what": "exponent text accepted with a value that is not its exact value", "input": text, "impl": fmt.Sprintf("class %d, %d bits", rr.cls, rr.val.BitLen())})
		}
		st.Hit("go-oracle:beyond-limit")
	}
	for _, k := range []int64{1000, 100000, 1000000} {
		text := fmt.Sprintf("1e%d", k)
		rr := runParseRaw(K, 0, []byte(text))
		if rr.cls != 0 || rr.val.Cmp(pow10(k)) != 0 {
			st.ImplFailures = append(st.ImplFailures, map[string]interface{}{"what": "exponent text not parsed to its exact value", "input": text, "impl": fmt.Sprintf("class %d, %d bits", rr.cls, rr.val.BitLen())})
		}
		st.Hit("go-oracle:big-exact")
	}
	// the exact boundary of math/big's limits (SpecBig.v big_limits_json), both sides
	runLimitOracle(st, thorough)

	// ---------- addresses ----------
	eipVectors := []string{
		"52908400098527886E0F7030069857D2E4169EE7", "8617E340B3D01FA5F11F306F4090FD50E238070D",
		"de709f2102306220921060314715629080e2fb77", "27b1fdb04752bbc536007a920d24acb045561c26",
		"5aAeb6053F3E94C9b9A09f33669435E7Ef1BeAed", "fB6916095ca1df60bB79Ce92cE3Ea74c37c5d359",
		"dbF03B407c01E7cD3CBea99509d93f8DDDC8C6FB", "D1220A0cf47c7B9Be7A2E6BA89F429762e7b9aDb",
	}
	var addrs [][]byte
	for _, v := range eipVectors {
		b, _ := hex.DecodeString(v)
		addrs = append(addrs, b)
	}
	addrs = append(addrs, make([]byte, 20), bytes.Repeat([]byte{0xff}, 20), bytes.Repeat([]byte{0xab}, 20), bytes.Repeat([]byte{0x19}, 20), bytes.Repeat([]byte{0xa0}, 20), bytes.Repeat([]byte{0x0f}, 20))
	nAddr := 40
	if thorough {
		nAddr = 1500
	}
	for i := 0; i < nAddr; i++ {
		a := r.Bytes(20)
		switch i % 5 {
		case 1: // letters only
			for j := range a {
				a[j] = byte(0xa+r.Intn(6))<<4 | byte(0xa+r.Intn(6))
			}
		case 2: // digits only
			for j := range a {
				a[j] = byte(r.Intn(10))<<4 | byte(r.Intn(10))
			}
		}
		addrs = append(addrs, a)
	}
	for i, a := range addrs {
		g.addAddrPrint(a)
		for mode := 0; mode < 3; mode++ {
			for _, pre := range []string{"", "0x"} {
				t := pre + hexCase(r, a, mode)
				if (i+mode)%2 == 0 || len(pre) == 0 {
					g.addAddr(true, []byte(t), "valid", 1, a)
				}
				g.addAddr(false, []byte(`"`+t+`"`), "valid/json", 1, a)
			}
		}
		// the checksum form itself parses back
		ac := ethtypes.AddressWithChecksum{}
		copy(ac[:], a)
		g.addAddr(false, []byte(`"`+ac.String()+`"`), "valid/checksum-form", 1, a)
		if i < 12 || thorough {
			// neighbours: 19 and 21 bytes, odd number of digits, a non-hex character at a random place, other prefixes
			h := hex.EncodeToString(a)
			g.addAddr(true, []byte("0x"+h[:38]), "len19", 2, nil)
			g.addAddr(true, []byte(h+"00"), "len21", 2, nil)
			g.addAddr(false, []byte(`"0x`+h+`ab"`), "len21", 2, nil)
			g.addAddr(false, []byte(`"`+h[2:]+`"`), "len19", 2, nil)
			g.addAddr(true, []byte("0x"+h[:39]), "odd", 2, nil)
			g.addAddr(true, []byte(h+"0"), "odd", 2, nil)
			p := r.Intn(40)
			bad := []byte(h)
			bad[p] = "gGzZ xX_-:\x00/@`"[r.Intn(14)]
			g.addAddr(true, bad, "nonhex", 2, nil)
			g.addAddr(false, []byte(`"0x`+string(bad[:39])+`g"`), "nonhex", 2, nil)
			g.addAddr(true, []byte("0X"+h), "prefix-0X", 0, nil)
			g.addAddr(true, []byte("0x0x"+h), "prefix-twice", 2, nil)
			g.addAddr(true, []byte(" 0x"+h), "space", 2, nil)
			g.addAddr(true, []byte("0x"+h+" "), "space", 2, nil)
			g.addAddr(true, []byte("0x"+h[:36]+"0x"+h[38:]), "inner-0x", 2, nil)
		}
	}
	for _, s := range []string{"", "0x", "0", "0x0", "x", "0x" + strings.Repeat("0", 40), strings.Repeat("0", 40), strings.Repeat("0", 42), "0x" + strings.Repeat("0", 38)} {
		g.addAddr(true, []byte(s), "edge", 0, nil)
	}
	for _, j := range []string{`null`, `""`, `"0x"`, `12`, `true`, `{}`, `["0x00"]`, `"`, ``, `"0x` + strings.Repeat("0", 40) + `"`, ` "` + strings.Repeat("a", 40) + `" `, `"` + strings.Repeat("a", 40) + `" x`} {
		g.addAddr(false, []byte(j), "json", 0, nil)
		g.addLex([]byte(j))
	}

	// ---------- byte strings ----------
	lens := []int{0, 1, 2, 3, 19, 20, 21, 31, 32, 33, 64, 255, 256, 1023, 1024}
	nBytes := 40
	if thorough {
		nBytes = 1200
	}
	for i := 0; i < len(lens)+nBytes; i++ {
		n := 0
		if i < len(lens) {
			n = lens[i]
		} else {
			n = r.Intn(48)
			if i%7 == 0 {
				n = r.Intn(1025)
			}
		}
		b := r.Bytes(n)
		g.addBytesPrint(b)
		mode := i % 3
		pre := []string{"", "0x"}[(i/3)%2]
		h := hexCase(r, b, mode)
		g.addBytes([]byte(`"`+pre+h+`"`), fmt.Sprintf("valid:len=%s", lenBucket(n)), 1, b)
		if i < len(lens) {
			for m2 := 0; m2 < 3; m2++ {
				for _, p2 := range []string{"", "0x"} {
					g.addBytes([]byte(`"`+p2+hexCase(r, b, m2)+`"`), fmt.Sprintf("valid:len=%s", lenBucket(n)), 1, b)
				}
			}
		}
		if n > 0 && (i < len(lens) || i%3 == 0) {
			g.addBytes([]byte(`"`+pre+h[:len(h)-1]+`"`), "odd", 2, nil)
			bad := []byte(h)
			bad[r.Intn(len(bad))] = "gGzZ xX_-:/@`"[r.Intn(13)]
			g.addBytes([]byte(`"`+pre+string(bad)+`"`), "nonhex", 2, nil)
			g.addBytes([]byte(`"0X`+h+`"`), "prefix-0X", 0, nil)
		}
	}
	for _, j := range []string{`null`, `""`, `"0x"`, `"0"`, `"0x0"`, `"x"`, `"0x0x00"`, `12`, `true`, `{}`, `["00"]`, `"`, ``, `"00"`, ` "00" `, `"00" x`, `"0xg"`, `"0x0g"`, `"g0"`} {
		g.addBytes([]byte(j), "json", 0, nil)
		g.addLex([]byte(j))
	}

	// ---------- round 3: multi-field documents, concurrent use, last comparison of everything retained ----------
	nDocs, nConc := 240, 1500
	if thorough {
		nDocs, nConc = 4000, 20000
	}
	g.addHelpers()
	g.addDocs(nDocs)
	K.finish()
	g.mergeKeeper(K)
	g.concurrent(8, nConc)

	if err := g.w.Flush(); err != nil {
		panic(err)
	}
	st.Evaluations = g.w.Count()
	st.Rule = "integers 0,1,2^k-1,2^k,2^k+1 (k in 8,16,31,32,53,63,64,128,255,256,260), 10^k, random 1..300-bit and their negatives, each written in canonical decimal, 0x-hex (lower/upper/mixed, leading zeros), plain JSON number, exponent forms (fraction exactly consumed / one digit too many / trailing zeros in the exponent / compensated and uncompensated negative exponents), fractional texts (.0, .000, .5, a 1 beyond 256-bit precision) through BigIntegerFromString, HexInteger and HexUint64 (JSON string and JSON number); random valid decimal/exponent texts with their exact value; a fixed list of malformed texts, random texts over the numeric alphabet and every text up to length sweep_max_len over sweep_alphabet (also run through math/big directly to validate the model of SetString/ParseFloat/Rat.SetString); addresses (EIP-55 vectors, letters-only, digits-only, random) in 3 casings x 2 prefixes, length 19/21, odd, non-hex, other prefixes; byte strings of length 0..1024 in 3 casings x 2 prefixes, odd and non-hex. round 3: every object the implementation returns (the *big.Int of BigIntegerFromString / UnmarshalBigInt, HexInteger / HexUint64 receivers, HexBytes slices, addresses, the []byte of MarshalJSON, String() texts) is kept in a ring of 320 next to a deep copy and compared again after every later call and at the end; on leaving the ring the caller overwrites it in place and the same call is repeated; the []byte entry points get a private input buffer that must be left unmodified and is overwritten after the call; documents with 13 members of all seven types (every integer in a random spelling, JSON number or string, members in random order) unmarshalled in one go, marshalled back and read again, one in six with one member that must be refused; constructors / accessors / nil receivers / Scan / Must*; 8 goroutines running disjoint streams of all operations with their own rings. distinct = distinct (entry point, input); non-trivial = more than one character / more than 3 bits"
	if err := st.Write(filepath.Join(*out, "stats_C19.json")); err != nil {
		panic(err)
	}
}
