package main

// Wave 6: MarshalJSON of the five address / byte-string types as a Coq-side case kind of its own.
// The method is called directly (not through json.Marshal, not via String()), under recover(); the texts go to
// the evaluator, which compares them with the specification (quoted lower-case hex / quoted EIP-55 computed with
// the Gallina Keccak: result code 15) and with the model of EthTypes/ModelMarshal.v (result code 2).

import (
	"encoding/hex"
	"fmt"

	"github.com/hyperledger/firefly-signer/pkg/ethtypes"
	"verifharness/cv"
)

// cls: 0 all methods returned a text, 1 one of them returned an error, 2 panic
func runAddrMarshal(a []byte) (cls int, j0, jc, jp []byte, note string) {
	defer func() {
		if x := recover(); x != nil {
			cls, note = 2, fmt.Sprint(x)
		}
	}()
	var a0 ethtypes.Address0xHex
	copy(a0[:], a)
	ac := ethtypes.AddressWithChecksum(a0)
	ap := ethtypes.AddressPlainHex(a0)
	var e0, ec, ep error
	j0, e0 = a0.MarshalJSON()
	jc, ec = ac.MarshalJSON()
	jp, ep = ap.MarshalJSON()
	for _, e := range []error{e0, ec, ep} {
		if e != nil {
			return 1, nil, nil, nil, e.Error()
		}
	}
	return 0, append([]byte(nil), j0...), append([]byte(nil), jc...), append([]byte(nil), jp...), ""
}

func runBytesMarshal(h []byte) (cls int, jp, j0 []byte, note string) {
	defer func() {
		if x := recover(); x != nil {
			cls, note = 2, fmt.Sprint(x)
		}
	}()
	hc := append([]byte(nil), h...)
	var ep, e0 error
	jp, ep = ethtypes.HexBytesPlain(hc).MarshalJSON()
	j0, e0 = ethtypes.HexBytes0xPrefix(hc).MarshalJSON()
	if ep != nil || e0 != nil {
		return 1, nil, nil, fmt.Sprint(ep, e0)
	}
	return 0, append([]byte(nil), jp...), append([]byte(nil), j0...), ""
}

func (g *gen) addAddrMarshal(a []byte) {
	cls, j0, jc, jp, note := runAddrMarshal(a)
	g.st.Hit(fmt.Sprintf("addrmarshal:class=%d", cls))
	g.add(fmt.Sprintf("CAddrMarshal %s %d %s %s %s", cv.CoqBytes(a), cls, cv.CoqBytes(j0), cv.CoqBytes(jc), cv.CoqBytes(jp)),
		desc{Kind: "addrmarshal", Input: hex.EncodeToString(a), InputHex: hex.EncodeToString(a), Impl: string(j0) + " " + string(jc) + " " + string(jp) + note})
}

func (g *gen) addBytesMarshal(h []byte) {
	cls, jp, j0, note := runBytesMarshal(h)
	g.st.Hit(fmt.Sprintf("bytesmarshal:class=%d", cls))
	g.add(fmt.Sprintf("CBytesMarshal %s %d %s %s", cv.CoqBytes(h), cls, cv.CoqBytes(jp), cv.CoqBytes(j0)),
		desc{Kind: "bytesmarshal", Input: cv.Compress(h).Describe(), InputHex: hex.EncodeToString(h), Impl: fmt.Sprintf("class %d len %d %s", cls, len(jp), note)})
}
