package main

import (
	"fmt"
	"math/big"
	"strings"

	"verifharness/cv"
)

// Library-limit boundary of C19_parse_exact (EthTypes/SpecBig.v, big_limits_json), transcribed here independently
// of the Coq model: a JSON-number text with a fraction or an exponent is within math/big's limits iff the written
// exponent fits int64 and (the mantissa is zero, or |e| <= 10^6 and bitlen(mantissa)+e is an int32), with
// e = written exponent - number of fraction digits.  Inside the limits the implementation must return the exact
// integer (or an error when the text denotes none / one out of range); outside it must return an error (or, should
// the library limit move, the exact value) - never a rounded one.
type limCase struct {
	neg      bool
	ip, frac string // frac == "" means no point
	hasExp   bool
	expNeg   bool
	expDig   string
}

func (c limCase) text() string {
	var sb strings.Builder
	if c.neg {
		sb.WriteByte('-')
	}
	sb.WriteString(c.ip)
	if c.frac != "" {
		sb.WriteByte('.')
		sb.WriteString(c.frac)
	}
	if c.hasExp {
		sb.WriteByte('e')
		if c.expNeg {
			sb.WriteByte('-')
		}
		sb.WriteString(c.expDig)
	}
	return sb.String()
}

// within, and (when within) the exact integer denoted (nil: denotes no integer)
func (c limCase) verdict() (within bool, val *big.Int) {
	x, _ := new(big.Int).SetString(c.expDig, 10)
	if !c.hasExp {
		x = new(big.Int)
	}
	if c.expNeg {
		x.Neg(x)
	}
	m, _ := new(big.Int).SetString(c.ip+c.frac, 10)
	if !x.IsInt64() {
		return false, nil
	}
	e := new(big.Int).Sub(x, big.NewInt(int64(len(c.frac))))
	if m.Sign() == 0 {
		return true, new(big.Int)
	}
	lim := big.NewInt(1000000)
	if new(big.Int).Abs(e).Cmp(lim) > 0 {
		return false, nil
	}
	be := new(big.Int).Add(big.NewInt(int64(m.BitLen())), e)
	if be.Cmp(big.NewInt(-1<<31)) < 0 || be.Cmp(big.NewInt(1<<31-1)) > 0 {
		return false, nil
	}
	if c.neg {
		m.Neg(m)
	}
	if e.Sign() >= 0 {
		return true, m.Mul(m, pow10(e.Int64()))
	}
	q, r := new(big.Int).QuoRem(m, pow10(-e.Int64()), new(big.Int))
	if r.Sign() != 0 {
		return true, nil
	}
	return true, q
}

func limitCases(thorough bool) []limCase {
	z := func(n int) string { return strings.Repeat("0", n) }
	cs := []limCase{
		// written exponent at the int64 boundary, zero mantissa
		{ip: "0", hasExp: true, expDig: "9223372036854775807"},
		{ip: "0", hasExp: true, expDig: "9223372036854775808"},
		{ip: "0", frac: "0", hasExp: true, expNeg: true, expDig: "9223372036854775808"},
		{neg: true, ip: "0", hasExp: true, expNeg: true, expDig: "9223372036854775809"},
		{ip: "0", frac: "000", hasExp: true, expDig: "99999999999999999999"},
		// e = 10^6 exactly / one more, through different splits of mantissa and exponent
		{ip: "1", hasExp: true, expDig: "1000000"},
		{ip: "10", hasExp: true, expDig: "1000000"},
		{ip: "1", hasExp: true, expDig: "1000001"},
		{ip: "0", frac: "1", hasExp: true, expDig: "1000001"},
		{ip: "1", frac: "0", hasExp: true, expDig: "1000001"},
		{ip: "0", frac: "10", hasExp: true, expDig: "1000002"},
		{ip: "0", frac: "1", hasExp: true, expDig: "1000002"},
		{neg: true, ip: "7", frac: "25", hasExp: true, expDig: "1000002"},
		{neg: true, ip: "7", frac: "25", hasExp: true, expDig: "1000003"},
		// e = -10^6 / one less with a short mantissa (no integer either way: an error on both sides)
		{ip: "5", hasExp: true, expNeg: true, expDig: "1000000"},
		{ip: "5", hasExp: true, expNeg: true, expDig: "1000001"},
		{ip: "0", frac: "5", hasExp: true, expNeg: true, expDig: "999999"},
		{ip: "0", frac: "5", hasExp: true, expNeg: true, expDig: "1000000"},
	}
	if thorough {
		// e = -10^6 exactly / one less where the text denotes an integer: the mantissa carries 10^6 zeros
		// (math/big scans a 1 MB mantissa in about 2.5 s, three times per parse: thorough tier only)
		cs = append(cs,
			limCase{ip: "1" + z(1000000), hasExp: true, expNeg: true, expDig: "1000000"},
			limCase{ip: "1" + z(1000001), hasExp: true, expNeg: true, expDig: "1000001"},
			limCase{ip: "1" + z(1000000), frac: "0", hasExp: true, expNeg: true, expDig: "1000000"},
			limCase{ip: "3" + z(999990), frac: z(10), hasExp: true, expNeg: true, expDig: "999990"},
			limCase{ip: "12", frac: z(1000000)},
			limCase{ip: "12", frac: z(1000001)},
			limCase{ip: "12", frac: z(999999) + "1"})
	}
	return cs
}

func runLimitOracle(st *cv.Stats, thorough bool) {
	for _, c := range limitCases(thorough) {
		text := c.text()
		within, want := c.verdict()
		for ty := 0; ty < 3; ty++ {
			in := []byte(text)
			rr := runParseRaw(nil, ty, in) // not retained: the values are millions of bits
			bad := ""
			exp := want
			if exp != nil && ty != 0 && (exp.Sign() < 0 || (ty == 2 && !exp.IsUint64())) {
				exp = nil // out of the type's range: must be refused
			}
			switch {
			case rr.cls == 2:
				bad = "panic"
			case within && exp != nil && (rr.cls != 0 || rr.val.Cmp(exp) != 0):
				bad = "text within math/big's limits not parsed to the exact integer it denotes"
			case within && exp == nil && rr.cls == 0:
				bad = "text that denotes no in-range integer was accepted"
			case !within && rr.cls == 0:
				// outside the limits an error is expected; an exact value is tolerated, a rounded one never
				w2 := c
				if ok, v := exactValue(w2); !ok || v == nil || rr.val.Cmp(v) != 0 {
					bad = "text beyond math/big's limits accepted with a value that is not its exact value"
				}
			}
			if bad != "" {
				st.ImplFailures = append(st.ImplFailures, map[string]interface{}{"what": "library-limit boundary: " + bad, "ty": ty, "input": short(text),
					"within": within, "impl": fmt.Sprintf("class %d, %d bits", rr.cls, rr.val.BitLen())})
			}
		}
		if within {
			st.Hit("go-oracle:limit-inside")
		} else {
			st.Hit("go-oracle:limit-outside")
		}
	}
}

// exact value ignoring the limits (only used for small exponents beyond the int64/10^6 boundary: never expands more
// than a few million digits)
func exactValue(c limCase) (bool, *big.Int) {
	x, _ := new(big.Int).SetString(c.expDig, 10)
	if !c.hasExp {
		x = new(big.Int)
	}
	if c.expNeg {
		x.Neg(x)
	}
	m, _ := new(big.Int).SetString(c.ip+c.frac, 10)
	if m.Sign() == 0 {
		return true, new(big.Int)
	}
	e := new(big.Int).Sub(x, big.NewInt(int64(len(c.frac))))
	if new(big.Int).Abs(e).Cmp(big.NewInt(4000000)) > 0 {
		return false, nil
	}
	if c.neg {
		m.Neg(m)
	}
	if e.Sign() >= 0 {
		return true, m.Mul(m, pow10(e.Int64()))
	}
	q, r := new(big.Int).QuoRem(m, pow10(-e.Int64()), new(big.Int))
	if r.Sign() != 0 {
		return true, nil
	}
	return true, q
}
