// Round 3: documents with several fields of the ethtypes types, unmarshalled in one go (every field compared after the
// whole document has been read), marshalled back, and the print functions called directly with their outputs retained.
package main

import (
	"bytes"
	"encoding/hex"
	"encoding/json"
	"fmt"
	"math/big"
	"strings"

	"github.com/hyperledger/firefly-signer/pkg/ethtypes"
	"golang.org/x/crypto/sha3"
	"verifharness/cv"
)

type docT struct {
	Gas    *ethtypes.HexInteger            `json:"gas"`
	Value  ethtypes.HexInteger             `json:"value"`
	Nonce  ethtypes.HexUint64              `json:"nonce"`
	PNonce *ethtypes.HexUint64             `json:"pnonce"`
	Data   ethtypes.HexBytes0xPrefix       `json:"data"`
	Plain  ethtypes.HexBytesPlain          `json:"plain"`
	To     *ethtypes.Address0xHex          `json:"to"`
	From   ethtypes.AddressWithChecksum    `json:"from"`
	Acct   ethtypes.AddressPlainHex        `json:"acct"`
	List   []*ethtypes.HexInteger          `json:"list"`
	Nums   []ethtypes.HexUint64            `json:"nums"`
	Blobs  []ethtypes.HexBytes0xPrefix     `json:"blobs"`
	Named  map[string]*ethtypes.HexInteger `json:"named"`
}

// EIP-55 written from the EIP text, with the hash library called directly (independent of pkg/ethtypes)
func eip55(a []byte) string {
	out := []byte(hex.EncodeToString(a))
	h := sha3.NewLegacyKeccak256()
	h.Write(out)
	sum := h.Sum(nil)
	for i := range out {
		nib := sum[i/2] >> 4
		if i%2 == 1 {
			nib = sum[i/2] & 15
		}
		if nib >= 8 && out[i] >= 'a' && out[i] <= 'f' {
			out[i] -= 32
		}
	}
	return "0x" + string(out)
}

// the canonical rendering of a document = what json.Marshal must print for it; used as the summary of the doc operation
type docWant struct {
	gas, value, nonce, pnonce *big.Int
	data, plain               []byte
	to, from, acct            []byte
	list, nums                []*big.Int
	blobs                     [][]byte
	named                     map[string]*big.Int
	namedKeys                 []string
}

func hx(n *big.Int) string { return `"0x` + n.Text(16) + `"` }

func (w *docWant) canonical() string {
	var sb strings.Builder
	sb.WriteString(`{"gas":` + hx(w.gas) + `,"value":` + hx(w.value) + `,"nonce":` + hx(w.nonce) + `,"pnonce":` + hx(w.pnonce))
	sb.WriteString(`,"data":"0x` + hex.EncodeToString(w.data) + `","plain":"` + hex.EncodeToString(w.plain) + `"`)
	sb.WriteString(`,"to":"0x` + hex.EncodeToString(w.to) + `","from":"` + eip55(w.from) + `","acct":"` + hex.EncodeToString(w.acct) + `"`)
	sb.WriteString(`,"list":[`)
	for i, n := range w.list {
		if i > 0 {
			sb.WriteString(",")
		}
		sb.WriteString(hx(n))
	}
	sb.WriteString(`],"nums":[`)
	for i, n := range w.nums {
		if i > 0 {
			sb.WriteString(",")
		}
		sb.WriteString(hx(n))
	}
	sb.WriteString(`],"blobs":[`)
	for i, b := range w.blobs {
		if i > 0 {
			sb.WriteString(",")
		}
		sb.WriteString(`"0x` + hex.EncodeToString(b) + `"`)
	}
	sb.WriteString(`],"named":{`)
	keys := append([]string{}, w.namedKeys...)
	sortStrings(keys)
	for i, k := range keys {
		if i > 0 {
			sb.WriteString(",")
		}
		sb.WriteString(`"` + k + `":` + hx(w.named[k]))
	}
	sb.WriteString(`}}`)
	return sb.String()
}

func sortStrings(a []string) {
	for i := 1; i < len(a); i++ {
		for j := i; j > 0 && a[j] < a[j-1]; j-- {
			a[j], a[j-1] = a[j-1], a[j]
		}
	}
}

// fieldText: the JSON token of an integer field and (for the Coq side) the type it is read as
type fieldText struct {
	ty  int
	tok string
	n   *big.Int
}

// randomDoc writes a document from values chosen here, every integer in a random spelling (plain decimal, 0x-hex in
// any case, exponent, decimal point; JSON number or string), members in random order with random white space.
// bad: one member is replaced by a text that must be refused, so the whole document must be an error.
func randomDoc(r *cv.Rand, bad bool) (text []byte, want string) {
	t, w, _ := randomDocFields(r, bad)
	return t, w
}

func randomDocFields(r *cv.Rand, bad bool) (text []byte, want string, fields []fieldText) {
	w := &docWant{named: map[string]*big.Int{}}
	intTok := func(ty int, n *big.Int) string {
		bias := 6
		s, numOK := randSpell(r, n, bias)
		tok := `"` + s + `"`
		if numOK && r.Bool() {
			tok = s
		}
		fields = append(fields, fieldText{ty, tok, n})
		return tok
	}
	bytesTok := func(b []byte) string {
		return `"` + []string{"", "0x"}[r.Intn(2)] + hexCase(r, b, r.Intn(3)) + `"`
	}
	w.gas, w.value = randomValue(r, false), randomValue(r, false)
	w.nonce, w.pnonce = randomValue(r, true), randomValue(r, true)
	w.data, w.plain = r.Bytes(r.Intn(40)), r.Bytes(r.Intn(40))
	w.to, w.from, w.acct = r.Bytes(20), r.Bytes(20), r.Bytes(20)
	members := []string{
		`"gas":` + intTok(1, w.gas), `"value":` + intTok(1, w.value), `"nonce":` + intTok(2, w.nonce), `"pnonce":` + intTok(2, w.pnonce),
		`"data":` + bytesTok(w.data), `"plain":` + bytesTok(w.plain), `"to":` + bytesTok(w.to), `"from":` + bytesTok(w.from), `"acct":` + bytesTok(w.acct),
	}
	var l []string
	for i, n := 0, r.Intn(5); i < n; i++ {
		v := randomValue(r, false)
		w.list = append(w.list, v)
		l = append(l, intTok(1, v))
	}
	members = append(members, `"list":[`+strings.Join(l, ", ")+`]`)
	l = nil
	for i, n := 0, r.Intn(4); i < n; i++ {
		v := randomValue(r, true)
		w.nums = append(w.nums, v)
		l = append(l, intTok(2, v))
	}
	members = append(members, `"nums":[`+strings.Join(l, ",")+`]`)
	l = nil
	for i, n := 0, r.Intn(3); i < n; i++ {
		b := r.Bytes(r.Intn(33))
		w.blobs = append(w.blobs, b)
		l = append(l, bytesTok(b))
	}
	members = append(members, `"blobs":[`+strings.Join(l, ",")+`]`)
	l = nil
	for i, n := 0, r.Intn(4); i < n; i++ {
		k := fmt.Sprintf("k%d", i)
		v := randomValue(r, false)
		w.named[k] = v
		w.namedKeys = append(w.namedKeys, k)
		l = append(l, `"`+k+`": `+intTok(1, v))
	}
	members = append(members, `"named":{`+strings.Join(l, ",")+`}`)
	want = w.canonical()
	if bad {
		badTexts := []string{`"1.5"`, `1.5`, `-1`, `"-1"`, `"1e-1"`, `15e-1`, `"0x"`, `"0xg"`, `"12a"`, `true`, `{}`, `"1e"`, `".5"`}
		which := r.Intn(6)
		switch which {
		case 0:
			members[0] = `"gas":` + badTexts[r.Intn(len(badTexts))]
		case 1:
			members[2] = `"nonce":` + []string{`18446744073709551616`, `"0x10000000000000000"`, `1.8446744073709551616e19`, `-1`, `"0.5"`}[r.Intn(5)]
		case 2:
			members[4] = `"data":` + []string{`"0x0"`, `"0xzz"`, `12`, `"abc"`}[r.Intn(4)]
		case 3:
			members[6] = `"to":` + []string{`"0x00"`, `"` + strings.Repeat("0", 42) + `"`, `"0x` + strings.Repeat("g", 40) + `"`}[r.Intn(3)]
		case 4:
			members[9] = `"list":[1, "2", ` + badTexts[r.Intn(len(badTexts))] + `]`
		default:
			members[12] = `"named":{"a":1e3,"b":` + badTexts[r.Intn(len(badTexts))] + `}`
		}
		want = "error"
		fields = nil
	}
	// random member order and white space
	for i := len(members) - 1; i > 0; i-- {
		j := r.Intn(i + 1)
		members[i], members[j] = members[j], members[i]
	}
	ws := []string{"", " ", "\n\t", "  "}
	var sb strings.Builder
	sb.WriteString(ws[r.Intn(4)] + "{")
	for i, m := range members {
		if i > 0 {
			sb.WriteString(",")
		}
		sb.WriteString(ws[r.Intn(4)] + m + ws[r.Intn(4)])
	}
	sb.WriteString("}" + ws[r.Intn(4)])
	return []byte(sb.String()), want, fields
}

// runDoc: json.Unmarshal of the document into a fresh docT; the summary is the canonical rendering computed from the
// fields with math/big / encoding/hex directly.  Also: json.Marshal of the result must be that rendering and must read
// back to the same; every field is retained.
func runDoc(k *keeper, in []byte) (sum string) {
	defer func() {
		if x := recover(); x != nil {
			sum = fmt.Sprintf("PANIC %v", x)
		}
	}()
	d := new(docT)
	ig := guardInput(in)
	err := json.Unmarshal(ig.buf, d)
	if err != nil {
		ig.done(k, "doc")
		k.after("doc", in)
		return "error"
	}
	sum = docSummary(d)
	// marshal back: the canonical text, and it reads back to the same document
	out, err := json.Marshal(d)
	if err != nil || string(out) != sum {
		sum = "marshal of the parsed document differs: " + clip(string(out))
	} else {
		d2 := new(docT)
		if err := json.Unmarshal(out, d2); err != nil || docSummary(d2) != sum {
			sum = "marshal of the parsed document does not read back: " + clip(string(out))
		}
	}
	if k != nil {
		var items []*keptItem
		wi := func(what string, h *ethtypes.HexInteger) {
			if h != nil {
				items = append(items, watchInt("field "+what, h.BigInt()))
			}
		}
		wi("gas", d.Gas)
		wi("value", &d.Value)
		for i, h := range d.List {
			wi(fmt.Sprintf("list[%d]", i), h)
		}
		for key, h := range d.Named {
			wi("named."+key, h)
		}
		bl := [][]byte{d.Data, d.Plain}
		for _, b := range d.Blobs {
			bl = append(bl, b)
		}
		for i, b := range bl {
			items = append(items, watchBytes(fmt.Sprintf("byte field %d", i), b))
		}
		// fixed-size fields (they live inside the document): compared with copies
		type fixed struct {
			nonce, pnonce  uint64
			to, from, acct [20]byte
			nums           []uint64
			nl, nb, nn     int
		}
		get := func() fixed {
			f := fixed{nonce: uint64(d.Nonce), from: d.From, acct: d.Acct, nl: len(d.List), nb: len(d.Blobs), nn: len(d.Named)}
			if d.PNonce != nil {
				f.pnonce = uint64(*d.PNonce)
			}
			if d.To != nil {
				f.to = *d.To
			}
			for _, n := range d.Nums {
				f.nums = append(f.nums, uint64(n))
			}
			return f
		}
		snap := get()
		items = append(items, &keptItem{what: "the fixed-size fields of the document", want: fmt.Sprint(snap),
			same: func() bool {
				if uint64(d.Nonce) != snap.nonce || d.From != snap.from || d.Acct != snap.acct || len(d.List) != snap.nl || len(d.Blobs) != snap.nb || len(d.Named) != snap.nn || len(d.Nums) != len(snap.nums) {
					return false
				}
				if (d.PNonce != nil && uint64(*d.PNonce) != snap.pnonce) || (d.To != nil && *d.To != snap.to) {
					return false
				}
				for i, n := range d.Nums {
					if uint64(n) != snap.nums[i] {
						return false
					}
				}
				return true
			},
			now: func() string { return fmt.Sprint(get()) }})
		k.keep(joinItems("doc", in, sum, items...))
	}
	ig.done(k, "doc")
	k.after("doc", in)
	return sum
}

func docSummary(d *docT) string {
	w := &docWant{named: map[string]*big.Int{}}
	w.gas, w.value = new(big.Int), new(big.Int).Set(d.Value.BigInt())
	if d.Gas != nil {
		w.gas = new(big.Int).Set(d.Gas.BigInt())
	}
	w.nonce, w.pnonce = new(big.Int).SetUint64(uint64(d.Nonce)), new(big.Int)
	if d.PNonce != nil {
		w.pnonce.SetUint64(uint64(*d.PNonce))
	}
	w.data, w.plain = d.Data, d.Plain
	w.to = make([]byte, 20)
	if d.To != nil {
		w.to = d.To[:]
	}
	w.from, w.acct = d.From[:], d.Acct[:]
	for _, h := range d.List {
		w.list = append(w.list, new(big.Int).Set(h.BigInt()))
	}
	for _, h := range d.Nums {
		w.nums = append(w.nums, new(big.Int).SetUint64(uint64(h)))
	}
	for _, b := range d.Blobs {
		w.blobs = append(w.blobs, b)
	}
	for key, h := range d.Named {
		w.named[key] = new(big.Int).Set(h.BigInt())
		w.namedKeys = append(w.namedKeys, key)
	}
	return w.canonical()
}

// addDocs: documents in the sequential part; the integer tokens also go to the Coq side as parse cases with their
// denotation (the spec oracle decides each token on its own, the document check decides them together)
func (g *gen) addDocs(n int) {
	for i := 0; i < n; i++ {
		bad := i%6 == 5
		text, want, fields := randomDocFields(g.r, bad)
		got := runOp(K, "doc", text)
		g.st.Hit(fmt.Sprintf("doc:bad=%v:ok=%v", bad, got == want))
		g.distinct("doc|"+string(text), true)
		if got != want {
			K.fail(map[string]interface{}{
				"what": "a document with several integer / bytes / address fields did not unmarshal to the values its members denote (or did not marshal back to the canonical text)",
				"kind": "retain", "op": "doc", "input": string(text), "input_hex": hex.EncodeToString(text), "expected": want, "impl": got, "later_op": "doc", "later_hex": hex.EncodeToString(text)})
		}
		if i%4 == 0 {
			for _, f := range fields {
				g.addParse(f.ty, []byte(f.tok), "doc-field", f.n, 0)
			}
		}
	}
}

// ---------- print functions called directly, outputs retained ----------
func runPrint(k *keeper, ty int, z *big.Int) (out []byte, err error) {
	op := fmt.Sprintf("print%d", ty)
	in := z.Bytes()
	defer func() {
		if x := recover(); x != nil {
			err = fmt.Errorf("panic: %v", x)
		}
		k.after(op, in)
	}()
	var d1, d2 []byte
	var s1, s2 string
	var e1, e2 error
	if ty == 1 {
		zc := new(big.Int).Set(z)
		h := ethtypes.NewHexInteger(zc)
		if out, err = json.Marshal(h); err != nil {
			return nil, err
		}
		d1, e1 = h.MarshalJSON()
		s1 = h.String()
		d2, e2 = (*h).MarshalJSON()
		s2 = h.String()
		if zc.Cmp(z) != 0 {
			return nil, fmt.Errorf("printing changed the value to %s", short(zc.String()))
		}
	} else {
		h := ethtypes.HexUint64(z.Uint64())
		if out, err = json.Marshal(h); err != nil {
			return nil, err
		}
		d1, e1 = h.MarshalJSON()
		s1 = h.String()
		d2, e2 = (&h).MarshalJSON()
		s2 = h.String()
		if uint64(h) != z.Uint64() {
			return nil, fmt.Errorf("printing changed the value to %d", uint64(h))
		}
	}
	// String() is the documented text form; MarshalJSON must be that text quoted, every time
	if e1 != nil || e2 != nil || string(out) != `"`+s1+`"` || !bytes.Equal(d1, out) || !bytes.Equal(d2, out) || s1 != s2 {
		return nil, fmt.Errorf("MarshalJSON %s / %s / %s is not String() %s / %s quoted", out, d1, d2, s1, s2)
	}
	if it := watchTexts("MarshalJSON / String output", [][]byte{d1, d2}, []string{s1, s2}); k != nil {
		k.keep(joinItems(op, in, string(out), it))
	}
	return out, nil
}

func runAddrPrint(k *keeper, a []byte) (s0, sc, sp string, err error) {
	defer func() {
		if x := recover(); x != nil {
			err = fmt.Errorf("panic: %v", x)
		}
		k.after("addrprint", a)
	}()
	var a0 ethtypes.Address0xHex
	copy(a0[:], a)
	ac := ethtypes.AddressWithChecksum(a0)
	ap := ethtypes.AddressPlainHex(a0)
	s0, sc, sp = a0.String(), ac.String(), ap.String()
	var outs [][]byte
	for _, p := range []struct {
		v interface{}
		m json.Marshaler
		s string
	}{{a0, a0, s0}, {ac, ac, sc}, {ap, ap, sp}, {&a0, &a0, s0}, {&ac, &ac, sc}, {&ap, &ap, sp}} {
		j, e := json.Marshal(p.v)
		d, e2 := p.m.MarshalJSON()
		if e != nil || e2 != nil || string(j) != `"`+p.s+`"` || !bytes.Equal(d, j) {
			return s0, sc, sp, fmt.Errorf("address MarshalJSON %s / %s is not String() %s quoted", j, d, p.s)
		}
		outs = append(outs, d)
	}
	if s0 != a0.String() || sc != ac.String() || sp != ap.String() {
		return s0, sc, sp, fmt.Errorf("address String() differs between two calls")
	}
	if !bytes.Equal(a0[:], a) || !bytes.Equal(ac[:], a) || !bytes.Equal(ap[:], a) {
		return s0, sc, sp, fmt.Errorf("printing changed the address")
	}
	if k != nil {
		k.keep(joinItems("addrprint", a, s0+" "+sc+" "+sp, watchTexts("address MarshalJSON / String output", outs, []string{s0, sc, sp})))
	}
	return
}

func runBytesPrint(k *keeper, h []byte) (sp, s0 string, err error) {
	defer func() {
		if x := recover(); x != nil {
			err = fmt.Errorf("panic: %v", x)
		}
		k.after("bytesprint", h)
	}()
	hc := append([]byte(nil), h...)
	hp := ethtypes.HexBytesPlain(hc)
	h0 := ethtypes.HexBytes0xPrefix(hc)
	sp, s0 = hp.String(), h0.String()
	var outs [][]byte
	for _, p := range []struct {
		m json.Marshaler
		s string
	}{{hp, sp}, {h0, s0}} {
		j, e := json.Marshal(p.m)
		d, e2 := p.m.MarshalJSON()
		if e != nil || e2 != nil || string(j) != `"`+p.s+`"` || !bytes.Equal(d, j) {
			return sp, s0, fmt.Errorf("hex bytes MarshalJSON is not String() quoted")
		}
		outs = append(outs, d)
	}
	if sp != hp.String() || s0 != h0.String() {
		return sp, s0, fmt.Errorf("hex bytes String() differs between two calls")
	}
	if !bytes.Equal(hc, h) {
		return sp, s0, fmt.Errorf("printing changed the bytes")
	}
	if !hp.Equals(ethtypes.HexBytesPlain(h)) || !h0.Equals(ethtypes.HexBytes0xPrefix(h)) || (len(h) > 0 && hp.Equals(ethtypes.HexBytesPlain(h[1:]))) {
		return sp, s0, fmt.Errorf("Equals is not byte equality")
	}
	if k != nil {
		k.keep(joinItems("bytesprint", h, sp+" "+s0, watchTexts("hex bytes MarshalJSON / String output", outs, []string{sp, s0})))
	}
	return
}
