// Harness for C09 (the signing proxy), at process level: builds the real ffsigner binary from the
// tree under test, runs it against a scripted backend (verifharness/proxykit), POSTs generated
// single requests and batches, and writes what was observed (HTTP status, reply tree, backend frames
// in arrival order, the replies the backend gave) as Coq cases for Rpc/RunC09.v, which runs the
// model on the same inputs and evaluates the property oracles.
package main

import (
	"encoding/hex"
	"encoding/json"
	"flag"
	"fmt"
	"os"
	"path/filepath"
	"sort"
	"strings"
	"sync"
	"sync/atomic"
	"time"

	"verifharness/cv"
	"verifharness/proxykit"
)

type procConf struct {
	name       string
	configured int64          // < 0: discover
	netVersion proxykit.Reply // reply to net_version when discovering
	expectUp   bool
	cases      int    // number of generated scenarios (quick)
	race       bool   // run the binary built with the Go race detector
	layout     string // "" <addr>.key.json + <addr>.pwd; "toml": metadata files naming key and password files
	walletYAML string // extra lines of the fileWallet block (signer cache settings)
	listener   bool   // filesystem listener on: key files are added while the process runs
}

type desc struct {
	Proc   string   `json:"proc"`
	Index  int      `json:"index"`
	Family string   `json:"family"`
	Body   string   `json:"body"`
	Status int      `json:"status"`
	Reply  string   `json:"reply"`
	Frames []string `json:"frames"`
	Order  []int    `json:"order,omitempty"`
	Key    string   `json:"key,omitempty"`
}

func clip(s string, n int) string {
	if len(s) > n {
		return s[:n] + fmt.Sprintf("...(%d bytes)", len(s))
	}
	return s
}

func isSpaceLatin1(b byte) bool {
	return (b >= 9 && b <= 13) || b == 32 || b == 0x85 || b == 0xa0
}

func bodyPrefix(b []byte) []byte {
	for i, c := range b {
		if !isSpaceLatin1(c) {
			return b[:i+1]
		}
	}
	return b
}

func coqFrame(f *proxykit.Frame) (string, bool) {
	var ps []string
	for _, p := range f.Params {
		t, err := parseJ(p)
		if err != nil {
			return "", false
		}
		ps = append(ps, t.Coq())
	}
	return "(" + cv.CoqBytes([]byte(f.Method)) + ", [" + strings.Join(ps, "; ") + "])", true
}

func coqReply(f *proxykit.Frame) string {
	if f.Dropped || !f.Replied {
		return "DFail"
	}
	ct := strings.ToLower(f.ReplyCT)
	if !strings.Contains(ct, "json") {
		return fmt.Sprintf("(DHttp %d 2%%nat DNull)", f.ReplyStatus)
	}
	t, err := parseJ(f.ReplyBody)
	if err != nil {
		return fmt.Sprintf("(DHttp %d 1%%nat DNull)", f.ReplyStatus)
	}
	return fmt.Sprintf("(DHttp %d 0%%nat %s)", f.ReplyStatus, t.Coq())
}

func coqTable(frames []proxykit.Frame, extra []proxykit.Frame) string {
	seen := map[string]bool{}
	var es []string
	for _, list := range [][]proxykit.Frame{extra, frames} {
		for i := range list {
			f := &list[i]
			k := frameKey(f.Method, f.Params)
			if seen[k] {
				continue
			}
			seen[k] = true
			if cf, ok := coqFrame(f); ok {
				es = append(es, "("+cf+", "+coqReply(f)+")")
			}
		}
	}
	return "[" + strings.Join(es, "; ") + "]"
}

func coqFrames(frames []proxykit.Frame) string {
	var es []string
	for i := range frames {
		if cf, ok := coqFrame(&frames[i]); ok {
			es = append(es, cf)
		} else {
			es = append(es, `(BLit "ff", [])`) // undecodable frame: can never match
		}
	}
	return "[" + strings.Join(es, "; ") + "]"
}

func coqNats(xs []int) string {
	parts := make([]string, len(xs))
	for i, x := range xs {
		parts[i] = fmt.Sprintf("%d%%nat", x)
	}
	return "[" + strings.Join(parts, "; ") + "]"
}

// processes that also get the concurrent-clients rounds
var concurrentProcs = map[string]bool{"configured-2022": true, "discovered-hex-0x7e6": true, "race-detector-configured-5": true,
	"toml-metadata-default-password-configured-7": true, "signer-cache-size-1b-discovered-11": true}

func main() {
	out := flag.String("out", "", "output directory")
	tier := flag.String("tier", "quick", "quick|thorough")
	replay := flag.String("replay", "", "replay file")
	flag.Parse()
	if *out == "" {
		fmt.Fprintln(os.Stderr, "need -out")
		os.Exit(2)
	}
	os.MkdirAll(*out, 0o755)
	thorough := *tier == "thorough"
	header := "From Coq Require Import String List NArith ZArith Uint63.\nFrom FFS Require Import Base.Bytes Base.Lit Rpc.RunC09.\nImport ListNotations.\nOpen Scope string_scope. Open Scope N_scope."
	st := cv.NewStats()
	st.Rule = "one case = one POST to the real ffsigner process (or one process start); distinct = distinct (process configuration, body, backend script) triples whose request reaches processRPC or the parse-error path"
	w := cv.NewWriter(*out, "C09", header, "case", "mismatches", 16)

	var rp struct {
		Case desc `json:"case"`
	}
	if *replay != "" {
		raw, err := os.ReadFile(*replay)
		if err != nil {
			panic(err)
		}
		json.Unmarshal(raw, &rp)
		w = cv.NewWriter(*out, "C09", header, "case", "mismatches", 1)
	}

	work, err := os.MkdirTemp("", "c09-")
	if err != nil {
		panic(err)
	}
	defer os.RemoveAll(work)
	bin, err := proxykit.BuildFFSigner(filepath.Join(work, "bin"))
	if err != nil {
		// the tree under test does not build: nothing can be observed
		fmt.Fprintln(os.Stderr, err)
		os.Exit(3)
	}

	raceBin, raceErr := proxykit.BuildFFSignerRace(filepath.Join(work, "binrace"))
	if raceErr != nil {
		st.Extra["race_build_unavailable"] = clip(raceErr.Error(), 300)
	}

	be, err := proxykit.NewBackend()
	if err != nil {
		panic(err)
	}
	defer be.Close()
	var cur atomic.Pointer[rules]
	var netVersion atomic.Pointer[proxykit.Reply]
	be.SetScript(func(f *proxykit.Frame) proxykit.Reply {
		if f.Method == "net_version" && len(f.Params) == 0 {
			if r := cur.Load(); r != nil {
				if rep, ok := r.byKey[frameKey(f.Method, f.Params)]; ok {
					return rep
				}
			}
			return *netVersion.Load()
		}
		if r := cur.Load(); r != nil {
			return r.answer(f)
		}
		return result("null")
	})

	nq := func(q, t int) int {
		if thorough {
			return t
		}
		return q
	}
	procs := []procConf{
		{"configured-2022", 2022, result(`"1"`), true, nq(70, 500), false, "", "", false},
		{"discovered-hex-0x7e6", -1, result(`"0x7e6"`), true, nq(40, 300), false, "", "", false},
		{"configured-1", 1, result(`"1"`), true, nq(25, 150), false, "", "", false},
		{"discovered-number-1337", -1, result(`1337`), true, nq(25, 150), false, "", "", false},
		{"configured-0", 0, result(`"1"`), true, nq(12, 60), false, "", "", false},
		{"discovered-null-is-0", -1, result(`null`), true, nq(10, 60), false, "", "", false},
		{"discovered-2^63-1-largest-int64", -1, result(`"9223372036854775807"`), true, nq(10, 60), false, "", "", false},
		{"configured-2^40", 1 << 40, result(`"1"`), true, nq(12, 60), false, "", "", false},
		{"discovered-decimal-string-4", -1, result(`"4"`), true, nq(8, 40), false, "", "", false},
		{"race-detector-configured-5", 5, result(`"1"`), true, nq(26, 120), true, "", "", false},
		{"discovered-2^40+7", -1, result(`"1099511627783"`), true, nq(8, 40), false, "", "", false},
		{"toml-metadata-default-password-configured-7", 7, result(`"1"`), true, nq(14, 80), false, "toml", "", false},
		{"signer-cache-ttl-1ms-configured-9", 9, result(`"1"`), true, nq(8, 60), false, "", "  signerCacheTTL: 1ms\n", false},
		{"listener-keys-added-at-runtime-configured-13", 13, result(`"1"`), true, nq(8, 60), false, "", "", true},
		{"signer-cache-size-1b-discovered-11", -1, result(`"0xb"`), true, nq(8, 60), false, "", "  signerCacheSize: 1b\n", false},
		{"discover-fails-rpcerror", -1, proxykit.Reply{Kind: proxykit.ReplyRPCError, Code: -32601, Message: "no such method"}, false, 0, false, "", "", false},
		{"discover-fails-http500", -1, proxykit.Reply{Kind: proxykit.ReplyHTTPError, Status: 500}, false, 0, false, "", "", false},
		{"discover-fails-unparsable", -1, result(`"abc"`), false, 0, false, "", "", false},
		{"discover-fails-negative", -1, result(`"-5"`), false, 0, false, "", "", false},
		// witnesses of the defect fixed by /repo 0c95e98 (a chain ID beyond int64 was truncated: 2^64+5 came up as chain 5,
		// 2^63 as a negative chain ID whose transactions recover under no chain): the process must not come up
		{"discover-fails-beyond-int64-2^64+5", -1, result(`"18446744073709551621"`), false, 0, false, "", "", false},
		{"discover-fails-beyond-int64-2^63", -1, result(`"0x8000000000000000"`), false, 0, false, "", "", false},
		{"discover-fails-drop", -1, proxykit.Reply{Kind: proxykit.ReplyDrop}, false, 0, false, "", "", false},
		{"discover-fails-null-body", -1, proxykit.Reply{Kind: proxykit.ReplyRawBody, Body: []byte("null")}, false, 0, false, "", "", false},
		{"discover-bool", -1, result(`true`), false, 0, false, "", "", false},
	}

	seen := map[string]bool{}
	for pi, pc := range procs {
		r := cv.NewRand(uint64(900 + pi))
		g := &gen{r: r, st: st}
		g.keys = proxykit.GenKeys(r.Bytes, 3+pi%3)
		keyPath := filepath.Join(work, fmt.Sprintf("keys%d", pi))
		var kd *keyDir
		var err error
		walletYAML := ""
		if pc.layout == "toml" {
			kd, walletYAML, err = buildTomlKeyDir(keyPath, g.keys, proxykit.GenKeys(r.Bytes, 9))
		} else {
			kd, err = buildKeyDir(keyPath, g.keys, proxykit.GenKeys(r.Bytes, 7))
			if pc.walletYAML != "" {
				walletYAML = defaultWalletYAML(keyPath, pc.walletYAML)
			}
			if pc.listener {
				walletYAML = strings.Replace(defaultWalletYAML(keyPath, pc.walletYAML), "disableListener: true", "disableListener: false", 1)
			}
		}
		if err != nil {
			panic(err)
		}
		g.bad = kd.bad
		if os.Getenv("C09_DEBUG") != "" {
			for _, b := range kd.bad {
				fmt.Fprintf(os.Stderr, "keydir %s: refused %s %s\n", pc.name, b.kind, b.hex())
			}
			for _, k := range g.keys {
				fmt.Fprintf(os.Stderr, "keydir %s: good %s\n", pc.name, k.Hex())
			}
		}
		coqAddrs := func(addrs []string) string {
			var cs []string
			for _, a := range addrs {
				b, _ := hex.DecodeString(a)
				cs = append(cs, cv.CoqBytes(b))
			}
			return "[" + strings.Join(cs, "; ") + "]"
		}
		// eth_accounts: every listed address in listing order; signable: the correctly stored keys
		accounts := coqAddrs(kd.listed)
		var sg []string
		for _, k := range g.keys {
			sg = append(sg, hex.EncodeToString(k.Address[:]))
		}
		sort.Strings(sg)
		signable := coqAddrs(sg)

		nv := pc.netVersion
		netVersion.Store(&nv)
		cur.Store(nil)
		be.Reset()
		os.WriteFile(filepath.Join(*out, "current_case.json"), []byte(fmt.Sprintf(`{"proc":%q,"stage":"start"}`, pc.name)), 0o644)
		useBin := bin
		var env []string
		if pc.race {
			if raceErr != nil {
				continue
			}
			useBin = raceBin
			env = []string{"GORACE=halt_on_error=0 exitcode=0"}
		}
		p, err := proxykit.StartProxy(proxykit.ProxyOptions{Bin: useBin, WorkDir: filepath.Join(work, fmt.Sprintf("run%d", pi)), KeyDir: keyPath, BackendURL: be.URL(), ChainID: pc.configured, Env: env, FileWalletYAML: walletYAML})
		started := err == nil
		startFrames := be.Frames()
		if *replay == "" || (rp.Case.Proc == pc.name && rp.Case.Index < 0) {
			w.Add(fmt.Sprintf("(CStart (%d)%%Z %s %v %s)", pc.configured, coqTable(startFrames, nil), started, coqFrames(startFrames)),
				desc{Proc: pc.name, Index: -1, Family: "start", Status: map[bool]int{true: 1, false: 0}[started]})
			st.Evaluations++
			st.Hit("start:" + map[bool]string{true: "configured", false: "discover"}[pc.configured >= 0] + map[bool]string{true: "-up", false: "-fails"}[started])
			if len(st.Samples) < 3 || (!started && len(st.Samples) < 5) {
				st.Samples = append(st.Samples, map[string]interface{}{"process": pc.name, "started": started, "frames_at_start": len(startFrames)})
			}
		}
		if started != pc.expectUp {
			st.Extra["unexpected_start:"+pc.name] = started
		}
		if !started {
			if p != nil {
				p.Kill()
			}
			continue
		}
		// the key file of the "file-gone" address disappears once the wallet has listed it
		if kd.goneFile != "" {
			os.Remove(kd.goneFile)
		}

		// scenario plan for this process
		var plan []func() scenario
		for i := 0; i < pc.cases; i++ {
			i := i
			plan = append(plan, func() scenario {
				switch c := (i*7 + pi) % 20; {
				case c < 5:
					rl := newRules()
					return g.single(rl, g.passthrough(rl))
				case c < 11:
					rl := newRules()
					s := g.single(rl, g.sendTx(rl, thorough))
					s.family = "single-sendTx"
					return s
				case c < 12:
					rl := newRules()
					return g.single(rl, g.accounts())
				case c < 13:
					rl := newRules()
					return g.single(rl, g.badMember(rl))
				case c < 14:
					return g.malformed(g.r.Intn(1000))
				case c < 16:
					return g.batch(thorough, batchSizes[g.r.Intn(len(batchSizes))], "mixed")
				case c < 17:
					return g.batch(thorough, batchSizes[g.r.Intn(9)], "passthrough")
				case c < 18:
					return g.batch(thorough, batchSizes[g.r.Intn(8)], "sendTx")
				default:
					return g.batch(thorough, batchSizes[g.r.Intn(len(batchSizes))], "mixed")
				}
			})
		}
		if pc.race {
			// the race detector flags unsynchronised slot writes / reads of the batch fan-out whatever
			// the timing: batches of every size, all-local members included
			plan = nil
			for i := 0; i < pc.cases; i++ {
				i := i
				plan = append(plan, func() scenario {
					switch i % 6 {
					case 0:
						return g.batch(thorough, batchSizes[(i/6)%len(batchSizes)], "local")
					case 1:
						return g.batch(thorough, batchSizes[g.r.Intn(len(batchSizes))], "passthrough")
					case 2:
						rl := newRules()
						return g.single(rl, g.anyMember(rl, thorough))
					default:
						return g.batch(thorough, batchSizes[g.r.Intn(12)], "mixed")
					}
				})
			}
		}
		// round 3: multi-request histories over the addresses the wallet lists but must refuse to sign
		// for (file holds another key / wrong or missing password / not a key file / file deleted):
		// each of them repeatedly, singly and inside batches, interleaved with good senders, at the
		// beginning of the process's life and again after everything else has run.
		{
			bads := g.bad
			full := pi == 0 || pi == 1 || pi == 3 || pc.race || pc.layout != ""
			if !full {
				bads = g.bad[:2]
				if pi%2 == 1 {
					bads = []badAddr{g.bad[pi%2], g.bad[2+pi%4]}
				}
			}
			var pre, post []func() scenario
			for i, b := range bads {
				i, b := i, b
				pre = append(pre, func() scenario { return g.historySingle(g.badSpec(b, 0), "history-single-refused") })
				pre = append(pre, func() scenario { return g.historySingle(g.badSpec(b, 1+i), "history-single-refused") })
				post = append(post, func() scenario { return g.historySingle(g.badSpec(b, i), "history-single-refused") })
			}
			pre = append(pre, func() scenario { return g.historyBatch(g.bad, 2) })
			pre = append(pre, func() scenario { return g.chainProbe(pi) })
			pre = append(pre, func() scenario { return g.chainProbe(pi + 1) })
			pre = append(pre, func() scenario { return g.historySingle(g.goodSpec(0, 0), "history-single-good") })
			if full {
				post = append(post, func() scenario { return g.historyBatch(g.bad, 1) })
			}
			// a few ordinary cases first, so that the good keys are cached before the refused ones are tried
			k := 3
			if k > len(plan) {
				k = len(plan)
			}
			plan = append(append(append(append([]func() scenario{}, plan[:k]...), pre...), plan[k:]...), post...)
		}
		if pc.listener {
			// round 3: the wallet's address list and key files change while the process runs (filesystem
			// listener on): a new correctly stored key, a new file holding a foreign key, and the missing
			// password file of the "no-password" address appear; afterwards the new addresses must be
			// listed (in notification order), the two usable ones must sign, the mislabelled one must be
			// refused every time.
			p := p
			addStep := func() scenario {
				nk := proxykit.GenKeys(r.Bytes, 3)
				waitListed := func(k proxykit.Key) bool {
					want := hex.EncodeToString(k.Address[:])
					for t := 0; t < 150; t++ {
						res := p.Post([]byte(`{"jsonrpc":"2.0","id":"listed?","method":"eth_accounts"}`))
						if res.Err == nil && strings.Contains(string(res.Body), want) {
							return true
						}
						time.Sleep(20 * time.Millisecond)
					}
					return false
				}
				pw := "pw-added"
				ok := writeKeyFile(keyPath, hex.EncodeToString(nk[0].Address[:]), nk[0], pw, &pw) == nil && waitListed(nk[0])
				ok = ok && writeKeyFile(keyPath, hex.EncodeToString(nk[1].Address[:]), nk[2], pw, &pw) == nil && waitListed(nk[1])
				if ok {
					kd.listed = append(kd.listed, hex.EncodeToString(nk[0].Address[:]), hex.EncodeToString(nk[1].Address[:]))
					g.keys = append(g.keys, nk[0])
					g.bad = append(g.bad, badAddr{"wrong-key-added-at-runtime", nk[1].Address})
					st.Hit("listener:keys-added")
					if kd.noPwKey != nil && os.WriteFile(filepath.Join(keyPath, hex.EncodeToString(kd.noPwKey.Address[:])+proxykit.PasswordExt), []byte("pw-c"), 0o600) == nil {
						var nb []badAddr
						for _, b := range g.bad {
							if b.kind != "no-password" {
								nb = append(nb, b)
							}
						}
						g.bad = nb
						g.keys = append(g.keys, *kd.noPwKey)
						st.Hit("listener:password-file-added")
					}
					accounts = coqAddrs(kd.listed)
					var sg []string
					for _, k := range g.keys {
						sg = append(sg, hex.EncodeToString(k.Address[:]))
					}
					signable = coqAddrs(sg)
				} else {
					// the directory change was not (completely) observed through eth_accounts within 3 s: the
					// wallet's state is unknown to the harness, the rest of this process's history is not judged
					st.Extra["listener_did_not_report_added_key_files"] = true
					return scenario{family: "skip-rest"}
				}
				rl := newRules()
				s := g.single(rl, g.accounts())
				s.family = "history-keys-added"
				return s
			}
			plan = append(plan, addStep)
			for rep := 0; rep < 3; rep++ {
				rep := rep
				plan = append(plan, func() scenario { return g.historySingle(g.goodSpec(len(g.keys)-1, rep), "history-keys-added") })
				plan = append(plan, func() scenario { return g.historySingle(g.goodSpec(len(g.keys)-2, rep+1), "history-keys-added") })
				plan = append(plan, func() scenario { return g.historySingle(g.badSpec(g.bad[len(g.bad)-1], rep), "history-keys-added") })
			}
			plan = append(plan, func() scenario { return g.historyBatch(g.bad, 1) })
			plan = append(plan, func() scenario {
				rl := newRules()
				s := g.single(rl, g.accounts())
				s.family = "history-keys-added"
				return s
			})
		}
		if pi == 0 {
			// regression corpus: the witnesses of the repaired defects D09a, D09b, D09c
			for k := 0; k < 9; k++ {
				k := k
				plan = append(plan, func() scenario { return g.fixedWitness(k) })
			}
			// fixed corpus on the first process: every malformed body, every batch size boundary
			for i := 0; i < 28; i++ {
				i := i
				plan = append(plan, func() scenario { return g.malformed(i) })
			}
			// every byte the batch/single sniffing skips, and its neighbours, in front of a batch and of a single request
			for k := 0; k < 2*len(leadBytes); k++ {
				k := k
				plan = append(plan, func() scenario { return g.leadCorpus(k) })
			}
			for _, n := range []int{1, 2, 64} {
				n := n
				plan = append(plan, func() scenario { return g.batch(thorough, n, "passthrough") })
				plan = append(plan, func() scenario { return g.batch(thorough, n, "mixed") })
			}
		}

		nvFrame := proxykit.Frame{Method: "net_version", Replied: true}
		if len(startFrames) > 0 {
			nvFrame = startFrames[0]
		}
		var extra []proxykit.Frame
		if pc.configured < 0 {
			extra = []proxykit.Frame{nvFrame}
		}
		record := func(ci int, sc scenario, res proxykit.Response, frames []proxykit.Frame) {
			status := res.Status
			if res.Err != nil {
				status = 0
			}
			var replyCoq = "None"
			if res.Err == nil {
				if t, err := parseJ(res.Body); err == nil {
					replyCoq = "(Some " + t.Coq() + ")"
				}
			}
			treeCoq := "None"
			if sc.tree != nil {
				treeCoq = "(Some " + sc.tree.Coq() + ")"
			}
			term := fmt.Sprintf("(CReq (%d)%%Z %s %s %s %s %s %s %s %d %s %s)", pc.configured, coqTable(extra, nil), coqTable(frames, nil), accounts, signable,
				cv.Compress(bodyPrefix(sc.body)).Coq(), treeCoq, coqNats(sc.order), status, replyCoq, coqFrames(frames))
			d := desc{Proc: pc.name, Index: ci, Family: sc.family, Body: clip(string(sc.body), 6000), Status: status, Reply: clip(string(res.Body), 3000), Order: sc.order}
			for i := range frames {
				d.Frames = append(d.Frames, clip(string(frames[i].Raw), 400))
			}
			if *replay == "" || (rp.Case.Proc == pc.name && rp.Case.Index == ci) {
				w.Add(term, d)
				st.Evaluations++
				st.Hit("family:" + sc.family)
				st.Hit(fmt.Sprintf("http-status:%d", status))
				st.Hit(fmt.Sprintf("backend-frames:%s", bucket(len(frames))))
				h := pc.name + "\x00" + string(sc.body)
				if !seen[h] {
					seen[h] = true
					st.Distinct++
				}
				if len(st.Samples) < 14 && (ci%9 == 0) {
					st.Samples = append(st.Samples, map[string]interface{}{"process": pc.name, "body": clip(string(sc.body), 500), "status": status, "reply": clip(string(res.Body), 300), "backend_frames": d.Frames})
				}
				if *replay != "" {
					for i := range frames {
						fmt.Printf("backend answered frame %d (%s): status=%d %s\n", i, frames[i].Method, frames[i].ReplyStatus, clip(string(frames[i].ReplyBody), 300))
					}
					fmt.Printf("implementation: status=%d reply=%s\nframes:\n  %s\n", status, clip(string(res.Body), 20000), strings.Join(d.Frames, "\n  "))
				}
			}
		}
		raceSeen := 0
		dead := false
		for ci, mk := range plan {
			sc := mk()
			if sc.family == "skip-rest" {
				break
			}
			cur.Store(sc.rules)
			be.Reset()
			os.WriteFile(filepath.Join(*out, "current_case.json"), []byte(fmt.Sprintf(`{"proc":%q,"index":%d,"body":%q}`, pc.name, ci, clip(string(sc.body), 2000))), 0o644)
			res := p.Post(sc.body)
			frames := be.Frames()
			record(ci, sc, res, frames)
			if pc.race {
				log := p.Log()
				mine, other := classifyRaces(log[raceSeen:])
				raceSeen = len(log)
				if len(other) > 0 {
					n, _ := st.Extra["races_outside_the_proxy_packages"].(int)
					st.Extra["races_outside_the_proxy_packages"] = n + len(other)
					if _, ok := st.Extra["race_outside_sample"]; !ok {
						st.Extra["race_outside_sample"] = clip(other[0], 1500)
					}
				}
				if len(mine) > 0 {
					st.ImplFailures = append(st.ImplFailures, map[string]interface{}{"what": "the Go race detector reports a data race inside internal/rpcserver or pkg/rpcbackend while serving this request (unsynchronised access to shared state of the batch fan-out / backend client)", "key": "C09/data-race",
						"proc": pc.name, "index": ci, "body": clip(string(sc.body), 4000), "race_report": clip(mine[0], 2500)})
					dead = true
					break
				}
			}
			if !p.Alive() {
				code, _ := p.ExitCode()
				st.ImplFailures = append(st.ImplFailures, map[string]interface{}{"what": "the ffsigner process exited while serving a request", "key": "C09/process-exit",
					"proc": pc.name, "index": ci, "body": clip(string(sc.body), 4000), "exit_code": code, "log_tail": clip(tail(p.Log(), 1500), 1500)})
				dead = true
				break
			}
		}
		// round 3: several clients at once (state shared between requests in flight: pooled buffers,
		// fields of the server / backend client / wallet written per request)
		if !dead && p.Alive() && concurrentProcs[pc.name] {
			rounds := 2
			if thorough {
				rounds = 8
			}
			for round := 0; round < rounds && p.Alive(); round++ {
				rl, css := g.concurrentRound(8)
				cur.Store(rl)
				be.Reset()
				os.WriteFile(filepath.Join(*out, "current_case.json"), []byte(fmt.Sprintf(`{"proc":%q,"stage":"concurrent round %d"}`, pc.name, round)), 0o644)
				results := make([]proxykit.Response, len(css))
				var wg sync.WaitGroup
				for i := range css {
					wg.Add(1)
					go func(i int) {
						defer wg.Done()
						results[i] = p.Post(css[i].sc.body)
					}(i)
				}
				wg.Wait()
				all := be.Frames()
				per := make([][]proxykit.Frame, len(css))
				for fi := range all {
					f := all[fi]
					owner := -1
					k := frameKey(f.Method, f.Params)
					for i := range css {
						if css[i].keys[k] {
							owner = i
							break
						}
					}
					if owner < 0 && f.Method == "eth_sendRawTransaction" {
						tok := rawToken(f.Params)
						for i := range css {
							if results[i].Err == nil && strings.Contains(string(results[i].Body), tok) {
								owner = i
								break
							}
						}
					}
					if owner >= 0 {
						per[owner] = append(per[owner], f)
					} else {
						// nobody's: a frame no request of this round demands, or a submission whose result reached no caller
						st.Hit("concurrent:unattributed-frame")
						if os.Getenv("C09_DEBUG") != "" {
							fmt.Fprintf(os.Stderr, "unattributed in %s: %s\n", pc.name, clip(string(f.Raw), 300))
						}
						for i := range per {
							per[i] = append(per[i], f)
						}
					}
				}
				for i := range css {
					record(len(plan)+round*len(css)+i, css[i].sc, results[i], per[i])
				}
				if pc.race {
					mine, _ := classifyRaces(p.Log()[raceSeen:])
					raceSeen = len(p.Log())
					if len(mine) > 0 {
						st.ImplFailures = append(st.ImplFailures, map[string]interface{}{"what": "the Go race detector reports a data race inside the proxy's packages while serving several clients at once", "key": "C09/data-race",
							"proc": pc.name, "index": len(plan) + round*len(css), "race_report": clip(mine[0], 2500)})
						break
					}
				}
				if !p.Alive() {
					code, _ := p.ExitCode()
					st.ImplFailures = append(st.ImplFailures, map[string]interface{}{"what": "the ffsigner process exited while serving concurrent requests", "key": "C09/process-exit",
						"proc": pc.name, "index": len(plan) + round*len(css), "exit_code": code, "log_tail": clip(tail(p.Log(), 1500), 1500)})
				}
			}
		}
		if p.Alive() {
			if !p.Probe() {
				st.ImplFailures = append(st.ImplFailures, map[string]interface{}{"what": "the ffsigner process no longer answers eth_accounts after the case sequence", "key": "C09/not-serving", "proc": pc.name})
			}
			if code := p.Stop(); code != 0 {
				st.Extra["exit_code:"+pc.name] = code
			}
		}
	}
	if err := w.Flush(); err != nil {
		panic(err)
	}
	os.Remove(filepath.Join(*out, "current_case.json"))
	st.Write(filepath.Join(*out, "stats_C09.json"))
}

// classifyRaces splits the race detector's reports into those whose racing accesses (the innermost
// non-runtime frame of either access) lie in the proxy's own packages, and the others (e.g. inside
// the third-party cache used by pkg/fswallet — property C17/C08 territory, not reported here).
func classifyRaces(log string) (mine, other []string) {
	for _, blk := range strings.Split(log, "==================") {
		if !strings.Contains(blk, "WARNING: DATA RACE") {
			continue
		}
		relevant := false
		lines := strings.Split(blk, "\n")
		for i, ln := range lines {
			t := strings.TrimSpace(ln)
			if !(strings.HasPrefix(t, "Read at") || strings.HasPrefix(t, "Write at") || strings.HasPrefix(t, "Previous read at") || strings.HasPrefix(t, "Previous write at") ||
				strings.HasPrefix(t, "Atomic read at") || strings.HasPrefix(t, "Atomic write at") || strings.HasPrefix(t, "Previous atomic read at") || strings.HasPrefix(t, "Previous atomic write at")) {
				continue
			}
			for j := i + 1; j < len(lines); j++ {
				f := strings.TrimSpace(lines[j])
				if f == "" {
					break
				}
				if strings.HasPrefix(f, "/") || strings.HasPrefix(f, "<autogenerated>") {
					continue // file:line
				}
				if strings.HasPrefix(f, "sync/atomic.") || strings.HasPrefix(f, "runtime.") || strings.HasPrefix(f, "reflect.") || strings.HasPrefix(f, "encoding/json.") {
					continue
				}
				if strings.Contains(f, "firefly-signer/internal/rpcserver.") || strings.Contains(f, "firefly-signer/pkg/rpcbackend.") ||
					strings.Contains(f, "firefly-signer/pkg/fswallet.") || strings.Contains(f, "firefly-signer/pkg/ethsigner.") || strings.Contains(f, "firefly-signer/pkg/keystorev3.") {
					// round 3: the wallet and the signer are part of the proxy's request path (pooled or shared objects there are state kept across requests)
					relevant = true
				}
				break
			}
		}
		if relevant {
			mine = append(mine, strings.TrimSpace(blk))
		} else {
			other = append(other, strings.TrimSpace(blk))
		}
	}
	return
}

func tail(s string, n int) string {
	if len(s) > n {
		return s[len(s)-n:]
	}
	return s
}

func bucket(n int) string {
	switch {
	case n == 0:
		return "0"
	case n == 1:
		return "1"
	case n == 2:
		return "2"
	case n <= 8:
		return "3-8"
	case n <= 32:
		return "9-32"
	default:
		return "33+"
	}
}
