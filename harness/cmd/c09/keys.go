package main

// Key directory of one ffsigner process (round 3).  Besides correctly stored keys it holds entries
// the wallet lists (eth_accounts) but must refuse to sign for, so that state kept across requests
// in the process (signer cache, address map) is exercised on the failing paths of
// fswallet.GetWalletFile / loadWalletFile:
//
//	wrong-key-foreign   <X>.key.json holds the (decryptable) key of an address not otherwise stored
//	wrong-key-held      <Y>.key.json holds the key of a good account that is also stored under its own name
//	bad-password        <B>.key.json is B's own key, <B>.pwd holds another text
//	no-password         <C>.key.json is C's own key, no <C>.pwd (and no default password file)
//	not-a-keyfile       <D>.key.json is not a keystore document, <D>.pwd exists
//	file-gone           <E>.key.json is E's own key with the right password, deleted after the process has started
//
// and entries that must not be listed at all: a file whose name is not an address, a directory
// named like a key file.  One good key is stored under an upper-case file name (the address map is
// keyed by the parsed address, the password file name is derived from the lower-case address).

import (
	"encoding/hex"
	"fmt"
	"os"
	"path/filepath"
	"sort"
	"strings"

	"verifharness/proxykit"
)

type badAddr struct {
	kind string
	addr [20]byte
}

func (b badAddr) hex() string { return hex.EncodeToString(b.addr[:]) }

type keyDir struct {
	good     []proxykit.Key // signable
	bad      []badAddr      // listed, not signable
	listed   []string       // lower-case hex, in listing order (os.ReadDir: sorted by file name)
	goneFile string         // to be deleted after start
	noPwKey  *proxykit.Key  // the "no-password" entry (its password is "pw-c"): becomes signable when <addr>.pwd appears
}

func writeKeyFile(dir, name string, k proxykit.Key, keyPassword string, pwFile *string) error {
	salt := proxykit.Keccak256([]byte("salt"), []byte(name))
	iv := proxykit.Keccak256([]byte("iv"), []byte(name))[:16]
	if err := os.WriteFile(filepath.Join(dir, name+proxykit.PrimaryExt), proxykit.KeystoreV3JSON(k, keyPassword, salt, iv), 0o600); err != nil {
		return err
	}
	if pwFile != nil {
		return os.WriteFile(filepath.Join(dir, strings.ToLower(name)+proxykit.PasswordExt), []byte(*pwFile), 0o600)
	}
	return nil
}

// buildKeyDir writes the directory.  extra holds 7 fresh keys: [0] foreign key, [1] the address X
// it is stored under, [2] the address Y under which good[0]'s key is stored again, [3] B, [4] C, [5] D, [6] E.
func buildKeyDir(dir string, good []proxykit.Key, extra []proxykit.Key) (*keyDir, error) {
	if err := os.MkdirAll(dir, 0o755); err != nil {
		return nil, err
	}
	kd := &keyDir{good: good}
	type entry struct{ file, addr string }
	var entries []entry
	str := func(s string) *string { return &s }
	for i, k := range good {
		name := hex.EncodeToString(k.Address[:])
		if i == len(good)-1 {
			name = strings.ToUpper(name) // upper-case file name, lower-case password file
		}
		pw := fmt.Sprintf("pw-%d-%x", i, k.Address[0:2])
		if err := writeKeyFile(dir, name, k, pw, str(pw)); err != nil {
			return nil, err
		}
		entries = append(entries, entry{name + proxykit.PrimaryExt, strings.ToLower(name)})
	}
	add := func(kind string, nameKey proxykit.Key, content proxykit.Key, keyPw string, pwFile *string) error {
		name := hex.EncodeToString(nameKey.Address[:])
		if err := writeKeyFile(dir, name, content, keyPw, pwFile); err != nil {
			return err
		}
		kd.bad = append(kd.bad, badAddr{kind, nameKey.Address})
		entries = append(entries, entry{name + proxykit.PrimaryExt, name})
		return nil
	}
	if err := add("wrong-key-foreign", extra[1], extra[0], "pw-x", str("pw-x")); err != nil {
		return nil, err
	}
	if err := add("wrong-key-held", extra[2], good[0], "pw-y", str("pw-y")); err != nil {
		return nil, err
	}
	if err := add("bad-password", extra[3], extra[3], "pw-b", str("pw-B")); err != nil {
		return nil, err
	}
	if err := add("no-password", extra[4], extra[4], "pw-c", nil); err != nil {
		return nil, err
	}
	kd.noPwKey = &extra[4]
	// not a keystore document
	{
		name := hex.EncodeToString(extra[5].Address[:])
		if err := os.WriteFile(filepath.Join(dir, name+proxykit.PrimaryExt), []byte(`{"address":"`+name+`","crypto":{"cipher":"none"},"version":3`), 0o600); err != nil {
			return nil, err
		}
		os.WriteFile(filepath.Join(dir, name+proxykit.PasswordExt), []byte("pw-d"), 0o600)
		kd.bad = append(kd.bad, badAddr{"not-a-keyfile", extra[5].Address})
		entries = append(entries, entry{name + proxykit.PrimaryExt, name})
	}
	if err := add("file-gone", extra[6], extra[6], "pw-e", str("pw-e")); err != nil {
		return nil, err
	}
	kd.goneFile = filepath.Join(dir, hex.EncodeToString(extra[6].Address[:])+proxykit.PrimaryExt)
	// never listed
	os.WriteFile(filepath.Join(dir, "README"+proxykit.PrimaryExt), []byte("not an address"), 0o600)
	os.WriteFile(filepath.Join(dir, "0x1234"+proxykit.PrimaryExt), []byte("{}"), 0o600)
	os.MkdirAll(filepath.Join(dir, strings.Repeat("ab", 20)+proxykit.PrimaryExt), 0o755)
	os.WriteFile(filepath.Join(dir, strings.Repeat("cd", 20)+".json"), []byte("{}"), 0o600)

	sort.Slice(entries, func(i, j int) bool { return entries[i].file < entries[j].file })
	for _, e := range entries {
		kd.listed = append(kd.listed, e.addr)
	}
	return kd, nil
}

// buildTomlKeyDir writes a metadata-file layout (as /repo/test/keystore_toml): <addr>.toml names the
// key file and the password file; a toml without password-file falls back to the default password
// file.  Signable: good (toml → own key + own password; the last one through the default password).
// Refused: toml → foreign key / → a held account's key / → wrong password text / no password-file
// and a key not encrypted with the default password / key-file missing on disk / key-file not a
// keystore / toml unparsable / toml without key-file.  extra holds 9 fresh keys.
// Returns the directory description and the fileWallet YAML block body.
func buildTomlKeyDir(dir string, good []proxykit.Key, extra []proxykit.Key) (*keyDir, string, error) {
	store := filepath.Join(dir, "store") // key and password files live outside the listed directory level
	if err := os.MkdirAll(store, 0o755); err != nil {
		return nil, "", err
	}
	kd := &keyDir{good: good}
	const defaultPw = "the-default-password"
	defPwFile := filepath.Join(store, "default.pwd")
	os.WriteFile(defPwFile, []byte(defaultPw+"\n"), 0o600)
	writeKey := func(tag string, k proxykit.Key, pw string) string {
		f := filepath.Join(store, tag+".json")
		salt := proxykit.Keccak256([]byte("salt"), []byte(tag))
		iv := proxykit.Keccak256([]byte("iv"), []byte(tag))[:16]
		os.WriteFile(f, proxykit.KeystoreV3JSON(k, pw, salt, iv), 0o600)
		return f
	}
	writePw := func(tag, text string) string {
		f := filepath.Join(store, tag+".pwd")
		os.WriteFile(f, []byte(text), 0o600)
		return f
	}
	type entry struct{ file, addr string }
	var entries []entry
	toml := func(nameKey proxykit.Key, body string) {
		name := hex.EncodeToString(nameKey.Address[:])
		os.WriteFile(filepath.Join(dir, name+".toml"), []byte(body), 0o600)
		entries = append(entries, entry{name + ".toml", name})
	}
	meta := func(kf, pf string) string {
		s := "[metadata]\ndescription = \"generated\"\n\n[signing]\ntype = \"file-based-signer\"\n"
		if kf != "" {
			s += fmt.Sprintf("key-file = %q\n", kf)
		}
		if pf != "" {
			s += fmt.Sprintf("password-file = %q\n", pf)
		}
		return s
	}
	for i, k := range good {
		tag := fmt.Sprintf("good%d", i)
		if i == len(good)-1 {
			toml(k, meta(writeKey(tag, k, defaultPw), "")) // default password file, trimmed
			continue
		}
		pw := fmt.Sprintf("pw-%d", i)
		toml(k, meta(writeKey(tag, k, pw), writePw(tag, pw+"\n")))
	}
	bad := func(kind string, nameKey proxykit.Key, body string) {
		toml(nameKey, body)
		kd.bad = append(kd.bad, badAddr{kind, nameKey.Address})
	}
	bad("wrong-key-foreign", extra[1], meta(writeKey("foreign", extra[0], "pw-x"), writePw("foreign", "pw-x")))
	bad("wrong-key-held", extra[2], meta(filepath.Join(store, "good0.json"), filepath.Join(store, "good0.pwd")))
	bad("bad-password", extra[3], meta(writeKey("b", extra[3], "pw-b"), writePw("b", "pw-B")))
	bad("bad-default-password", extra[4], meta(writeKey("c", extra[4], "pw-c"), ""))
	bad("keyfile-missing", extra[5], meta(filepath.Join(store, "nowhere.json"), writePw("d", "pw-d")))
	{
		f := filepath.Join(store, "garbage.json")
		os.WriteFile(f, []byte("{\"version\":3,\"crypto\":{}}"), 0o600)
		bad("not-a-keyfile", extra[6], meta(f, writePw("e", "pw-e")))
	}
	bad("metadata-unparsable", extra[7], "[signing\nkey-file = ")
	bad("metadata-without-keyfile", extra[8], meta("", writePw("f", "pw-f")))
	// never listed
	os.WriteFile(filepath.Join(dir, "file_with_wrong_name.toml"), []byte(meta("x", "y")), 0o600)
	os.MkdirAll(filepath.Join(dir, strings.Repeat("ab", 20)+".toml"), 0o755)

	sort.Slice(entries, func(i, j int) bool { return entries[i].file < entries[j].file })
	for _, e := range entries {
		kd.listed = append(kd.listed, e.addr)
	}
	yaml := fmt.Sprintf("  path: %q\n  disableListener: true\n  defaultPasswordFile: %q\n  filenames:\n    primaryExt: \".toml\"\n    passwordTrimSpace: true\n  metadata:\n    keyFileProperty: '{{ index .signing \"key-file\" }}'\n    passwordFileProperty: '{{ index .signing \"password-file\" }}'\n",
		dir, defPwFile)
	return kd, yaml, nil
}

// defaultWalletYAML is the block proxykit writes by default, plus extra lines (signer cache settings).
func defaultWalletYAML(dir, extra string) string {
	return fmt.Sprintf("  path: %q\n  disableListener: true\n  filenames:\n    primaryExt: %q\n    passwordExt: %q\n%s", dir, proxykit.PrimaryExt, proxykit.PasswordExt, extra)
}
