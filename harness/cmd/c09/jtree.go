package main

import (
	"bytes"
	"encoding/json"
	"fmt"
	"io"
	"strings"

	"verifharness/cv"
)

// J is a JSON tree with numbers kept as text and object members in document order (duplicates
// kept) — the Go twin of Rpc/Json.v json.
type J struct {
	K   int // 0 null, 1 bool, 2 number, 3 string, 4 array, 5 object
	B   bool
	S   string // number text / string value (UTF-8)
	A   []*J
	Key []string // object keys, parallel to A
}

func jnull() *J        { return &J{K: 0} }
func jbool(b bool) *J  { return &J{K: 1, B: b} }
func jnum(t string) *J { return &J{K: 2, S: t} }
func jstr(s string) *J { return &J{K: 3, S: s} }
func jarr(a ...*J) *J  { return &J{K: 4, A: a} }
func jobj() *J         { return &J{K: 5} }
func (j *J) set(k string, v *J) *J {
	j.Key = append(j.Key, k)
	j.A = append(j.A, v)
	return j
}
func (j *J) get(k string) *J {
	if j == nil || j.K != 5 {
		return nil
	}
	for i, kk := range j.Key {
		if kk == k {
			return j.A[i]
		}
	}
	return nil
}

func quote(s string) string {
	var sb strings.Builder
	sb.WriteByte('"')
	for i := 0; i < len(s); i++ {
		c := s[i]
		switch {
		case c == '"':
			sb.WriteString(`\"`)
		case c == '\\':
			sb.WriteString(`\\`)
		case c == '\n':
			sb.WriteString(`\n`)
		case c < 0x20:
			fmt.Fprintf(&sb, `\u%04x`, c)
		default:
			sb.WriteByte(c)
		}
	}
	sb.WriteByte('"')
	return sb.String()
}

// Text serialises the tree; sp > 0 inserts that much optional whitespace after separators.
func (j *J) Text(sp int) string {
	var sb strings.Builder
	j.write(&sb, strings.Repeat(" ", sp))
	return sb.String()
}
func (j *J) write(sb *strings.Builder, ws string) {
	switch j.K {
	case 0:
		sb.WriteString("null")
	case 1:
		if j.B {
			sb.WriteString("true")
		} else {
			sb.WriteString("false")
		}
	case 2:
		sb.WriteString(j.S)
	case 3:
		sb.WriteString(quote(j.S))
	case 4:
		sb.WriteByte('[')
		for i, e := range j.A {
			if i > 0 {
				sb.WriteString("," + ws)
			}
			e.write(sb, ws)
		}
		sb.WriteByte(']')
	case 5:
		sb.WriteByte('{')
		for i, e := range j.A {
			if i > 0 {
				sb.WriteString("," + ws)
			}
			sb.WriteString(quote(j.Key[i]) + ":" + ws)
			e.write(sb, ws)
		}
		sb.WriteByte('}')
	}
}

// Coq prints the djson term of Rpc/RunC09.v.
func (j *J) Coq() string {
	var sb strings.Builder
	j.coq(&sb)
	return sb.String()
}
func (j *J) coq(sb *strings.Builder) {
	switch j.K {
	case 0:
		sb.WriteString("DNull")
	case 1:
		if j.B {
			sb.WriteString("(DBool true)")
		} else {
			sb.WriteString("(DBool false)")
		}
	case 2:
		sb.WriteString("(DNum " + cv.Compress([]byte(j.S)).Coq() + ")")
	case 3:
		sb.WriteString("(DStr " + cv.Compress([]byte(j.S)).Coq() + ")")
	case 4:
		sb.WriteString("(DArr [")
		for i, e := range j.A {
			if i > 0 {
				sb.WriteString("; ")
			}
			e.coq(sb)
		}
		sb.WriteString("])")
	case 5:
		sb.WriteString("(DObj [")
		for i, e := range j.A {
			if i > 0 {
				sb.WriteString("; ")
			}
			sb.WriteString("(" + cv.CoqBytes([]byte(j.Key[i])) + ", ")
			e.coq(sb)
			sb.WriteString(")")
		}
		sb.WriteString("])")
	}
}

// parseJ reads one JSON value with encoding/json's tokenizer (the library, not firefly-signer),
// keeping member order, duplicates and number texts.  Trailing non-space data is an error.
func parseJ(data []byte) (*J, error) {
	d := json.NewDecoder(bytes.NewReader(data))
	d.UseNumber()
	v, err := parseValue(d)
	if err != nil {
		return nil, err
	}
	if _, err := d.Token(); err != io.EOF {
		return nil, fmt.Errorf("trailing data")
	}
	return v, nil
}

func parseValue(d *json.Decoder) (*J, error) {
	t, err := d.Token()
	if err != nil {
		return nil, err
	}
	return parseFrom(d, t)
}

func parseFrom(d *json.Decoder, t json.Token) (*J, error) {
	switch x := t.(type) {
	case nil:
		return jnull(), nil
	case bool:
		return jbool(x), nil
	case json.Number:
		return jnum(string(x)), nil
	case string:
		return jstr(x), nil
	case json.Delim:
		switch x {
		case '[':
			out := &J{K: 4, A: []*J{}}
			for d.More() {
				v, err := parseValue(d)
				if err != nil {
					return nil, err
				}
				out.A = append(out.A, v)
			}
			if _, err := d.Token(); err != nil {
				return nil, err
			}
			return out, nil
		case '{':
			out := &J{K: 5}
			for d.More() {
				kt, err := d.Token()
				if err != nil {
					return nil, err
				}
				k, ok := kt.(string)
				if !ok {
					return nil, fmt.Errorf("bad key")
				}
				v, err := parseValue(d)
				if err != nil {
					return nil, err
				}
				out.set(k, v)
			}
			if _, err := d.Token(); err != nil {
				return nil, err
			}
			return out, nil
		}
	}
	return nil, fmt.Errorf("unexpected token %v", t)
}
