package main

import (
	"crypto/sha256"
	"encoding/hex"
	"encoding/json"
	"fmt"
	"math/big"
	"strings"
	"time"

	"verifharness/cv"
	"verifharness/proxykit"
)

// rules is the script of the backend for one case: a pure function of the frame.
type rules struct {
	rawUnique bool                      // eth_sendRawTransaction answered with a result that is a function of the payload alone (SHA-256), so the caller's reply identifies the frame
	byKey     map[string]proxykit.Reply // method + "\x00" + compact params
	count     map[string]proxykit.Reply // eth_getTransactionCount by address parameter ("0x…" lower case)
	countDef  proxykit.Reply
	rawMenu   []proxykit.Reply // eth_sendRawTransaction: by byte sum of the parameter
	def       proxykit.Reply
}

func newRules() *rules {
	return &rules{byKey: map[string]proxykit.Reply{}, count: map[string]proxykit.Reply{},
		countDef: result(`"0x0"`), rawMenu: []proxykit.Reply{result(`"0x00000000000000000000000000000000000000000000000000000000000000aa"`)},
		def: result(`null`)}
}

func frameKey(method string, params []json.RawMessage) string {
	var sb strings.Builder
	sb.WriteString(method)
	sb.WriteByte(0)
	for _, p := range params {
		sb.Write(p)
		sb.WriteByte(',')
	}
	return sb.String()
}

func (rl *rules) answer(f *proxykit.Frame) proxykit.Reply {
	if r, ok := rl.byKey[frameKey(f.Method, f.Params)]; ok {
		return r
	}
	switch f.Method {
	case "eth_getTransactionCount":
		if len(f.Params) > 0 {
			var a string
			if json.Unmarshal(f.Params[0], &a) == nil {
				if r, ok := rl.count[a]; ok {
					return r
				}
			}
		}
		return rl.countDef
	case "eth_sendRawTransaction":
		if rl.rawUnique {
			return result(`"` + rawToken(f.Params) + `"`)
		}
		sum := 0
		if len(f.Params) > 0 {
			for _, c := range f.Params[0] {
				sum += int(c)
			}
		}
		return rl.rawMenu[sum%len(rl.rawMenu)]
	}
	return rl.def
}

func rawToken(params []json.RawMessage) string {
	h := sha256.New()
	for _, p := range params {
		h.Write(p)
	}
	return "0x" + hex.EncodeToString(h.Sum(nil))
}

// plainIntText: optional sign, then decimal digits without a leading zero, or 0x / 0X and hex digits.
func plainIntText(s string) bool {
	if len(s) > 0 && (s[0] == '+' || s[0] == '-') {
		s = s[1:]
	}
	if len(s) > 2 && s[0] == '0' && (s[1] == 'x' || s[1] == 'X') {
		for _, c := range s[2:] {
			if !(c >= '0' && c <= '9' || c >= 'a' && c <= 'f' || c >= 'A' && c <= 'F') {
				return false
			}
		}
		return true
	}
	if s == "" || (len(s) > 1 && s[0] == '0') {
		return false
	}
	for _, c := range s {
		if c < '0' || c > '9' {
			return false
		}
	}
	return true
}

// outsideIntRegion: the reply carries a `result` (number or string) that looks numeric but is not a
// plain decimal / 0x-hex integer text.
func outsideIntRegion(rep proxykit.Reply) bool {
	var res json.RawMessage
	switch rep.Kind {
	case proxykit.ReplyResult:
		res = rep.Result
	case proxykit.ReplyRawBody, proxykit.ReplyHTTPError:
		var o map[string]json.RawMessage
		if json.Unmarshal(rep.Body, &o) != nil {
			return false
		}
		for k, v := range o {
			if strings.EqualFold(k, "result") && numericLooking(v) {
				return true
			}
		}
		return false
	default:
		return false
	}
	return numericLooking(res)
}

func numericLooking(res json.RawMessage) bool {
	t := strings.TrimSpace(string(res))
	if t == "" {
		return false
	}
	if t[0] == '"' {
		var s string
		if json.Unmarshal(res, &s) != nil {
			return false
		}
		t = s
	}
	if t == "" || !strings.ContainsRune("0123456789+-.", rune(t[0])) {
		return false
	}
	return !plainIntText(t)
}

func result(j string) proxykit.Reply {
	return proxykit.Reply{Kind: proxykit.ReplyResult, Result: json.RawMessage(j)}
}

type gen struct {
	r         *cv.Rand
	st        *cv.Stats
	keys      []proxykit.Key // signable
	bad       []badAddr      // listed by eth_accounts, the wallet must refuse to sign (keys.go)
	uniq      int
	forceLead *string // leadCorpus: the bytes put in front of the body instead of a random lead
	plainEnv  bool    // no odd key casing / duplicate members in envelopes (concurrent rounds: frames are attributed by method + params)
}

// fromSpec forces the `from` of a generated eth_sendTransaction (histories over one address).
type fromSpec struct {
	hex   string // 40 lower-case hex digits
	style int    // 0 "0x"+lower, 1 "0x"+UPPER, 2 no prefix, 3 mixed case
	tag   string
	clean bool // everything else well-formed, so that the request reaches the wallet
	nonce bool // nonce supplied (no eth_getTransactionCount frame)
}

func mixedCase(h string) string {
	b := []byte(h)
	for i := range b {
		if i%3 == 0 && b[i] >= 'a' && b[i] <= 'f' {
			b[i] -= 32
		}
	}
	return string(b)
}

func (g *gen) pick(xs ...string) string { return xs[g.r.Intn(len(xs))] }

var unicodeStrings = []string{"héllo wörld", "✓ 𝄞 日本語", "a\"b\\c\nd\u0001", "<&> ", "", "ſ K", strings.Repeat("x", 300)}

// value makes an arbitrary JSON value.
func (g *gen) value(depth int) *J {
	c := g.r.Intn(12)
	if depth <= 0 && c >= 9 {
		c = g.r.Intn(9)
	}
	switch c {
	case 0:
		return jnull()
	case 1:
		return jbool(g.r.Bool())
	case 2:
		return jnum(fmt.Sprint(g.r.Intn(1000)))
	case 3:
		return jnum(g.pick("0", "-1", "-0", "1.5", "1e3", "1E+2", "0.000001", "18446744073709551616", "123456789012345678901234567890", "-9223372036854775809", "1.7976931348623157e308"))
	case 4:
		return jstr(g.pick(unicodeStrings...))
	case 5:
		return jstr("0x" + hex.EncodeToString(g.r.Bytes(g.r.Intn(40))))
	case 6:
		return jstr(g.pick("latest", "pending", "earliest", "0x10"))
	case 7, 8:
		return jstr(fmt.Sprintf("s%d", g.r.Intn(100000)))
	case 9, 10:
		n := g.r.Intn(4)
		a := &J{K: 4, A: []*J{}}
		for i := 0; i < n; i++ {
			a.A = append(a.A, g.value(depth-1))
		}
		return a
	default:
		n := g.r.Intn(4)
		o := jobj()
		for i := 0; i < n; i++ {
			k := g.pick("a", "b", "to", "data", "id", "k\"ey", "ключ", "")
			o.set(k, g.value(depth-1))
		}
		return o
	}
}

func (g *gen) deep(n int) *J {
	v := jstr("leaf")
	for i := 0; i < n; i++ {
		if i%2 == 0 {
			v = jarr(v)
		} else {
			v = jobj().set("n", v)
		}
	}
	return v
}

// id makes a request id; the tag says which class.
func (g *gen) id() (*J, string) {
	switch g.r.Intn(14) {
	case 0:
		return jnum("0"), "id:num"
	case 1, 2:
		return jnum(fmt.Sprint(1 + g.r.Intn(100000))), "id:num"
	case 3:
		return jnum(g.pick("-7", "1.5", "1e2", "-0")), "id:num-odd"
	case 4:
		return jnum(g.pick("18446744073709551617", "9007199254740993", "1000000000000000000000000000000", "9223372036854775808")), "id:bigint"
	case 5, 6:
		return jstr(fmt.Sprintf("req-%d", g.r.Intn(100000))), "id:str"
	case 7:
		return jstr(g.pick(unicodeStrings...)), "id:str-unicode"
	case 8:
		return jstr(g.pick("1", "000000001", "null", "0x1")), "id:str-numlike"
	case 9:
		return jbool(g.r.Bool()), "id:bool"
	case 10:
		return jarr(jnum("1"), jstr("x")), "id:array"
	case 11:
		return jobj().set("a", jnum("1")), "id:object"
	case 12:
		return jnum(fmt.Sprint(g.r.Intn(5))), "id:num-small-clashing"
	default:
		return jstr(""), "id:str-empty"
	}
}

// replyKind makes a backend reply of a random kind for a pass-through / sendRaw frame.
func (g *gen) reply() (proxykit.Reply, string) {
	switch g.r.Intn(26) {
	case 0, 1, 2, 3, 4:
		return result(g.value(2).Text(0)), "reply:result-any"
	case 5:
		return result(`"0x` + hex.EncodeToString(g.r.Bytes(32)) + `"`), "reply:result-hash"
	case 6:
		return result("null"), "reply:result-null"
	case 7:
		return proxykit.Reply{Kind: proxykit.ReplyResult}, "reply:result-absent"
	case 8, 9:
		return proxykit.Reply{Kind: proxykit.ReplyRPCError, Code: int64(-32000 - g.r.Intn(5)), Message: g.pick("nonce too low", "execution reverted", "héllo", "")}, "reply:rpcerror-200"
	case 10:
		return proxykit.Reply{Kind: proxykit.ReplyRPCError, Code: 3, Message: "reverted", Data: json.RawMessage(g.pick(`"0x08c379a0"`, `{"a":[1,2]}`, `null`, `17`))}, "reply:rpcerror-data"
	case 11:
		return proxykit.Reply{Kind: proxykit.ReplyRPCError, Status: []int{400, 404, 500, 503}[g.r.Intn(4)], Code: -32601, Message: "method not found"}, "reply:rpcerror-httpstatus"
	case 12:
		return proxykit.Reply{Kind: proxykit.ReplyHTTPError, Status: []int{500, 502, 503, 401}[g.r.Intn(4)]}, "reply:http-empty"
	case 13:
		return proxykit.Reply{Kind: proxykit.ReplyHTTPError, Status: 500, Body: []byte("<html>Bad Gateway</html>"), ContentType: "text/html"}, "reply:http-text"
	case 14:
		return proxykit.Reply{Kind: proxykit.ReplyHTTPError, Status: 500, Body: []byte(g.pick(`{"result":1}`, `{"jsonrpc":"2.0","id":1}`, `[1,2]`, `"str"`, `{"error":"boom"}`, `{"error":{"code":0,"message":"zero"}}`, `{"error":{"code":"x","message":"m"}}`, `null`))}, "reply:http-json-noerror"
	case 15:
		return proxykit.Reply{Kind: proxykit.ReplyHTTPError, Status: 500, Body: []byte(`{"broken`), ContentType: "application/json"}, "reply:http-badjson"
	case 16:
		return proxykit.Reply{Kind: proxykit.ReplyDrop}, "reply:drop"
	case 17:
		return proxykit.Reply{Kind: proxykit.ReplyRawBody, Body: []byte("null")}, "reply:null-body"
	case 18:
		return proxykit.Reply{Kind: proxykit.ReplyHTTPError, Status: 200, Body: []byte(`plain text`), ContentType: "text/plain"}, "reply:200-not-json-ct"
	case 19:
		return proxykit.Reply{Kind: proxykit.ReplyRawBody, Body: []byte(g.pick(`{"broken`, ``, `[1,2]`, `"str"`, `17`, `{"result":1,"error":"str"}`, `{"error":{"code":1.5,"message":"m"}}`, `{"id":[],"result":{"a":1},"jsonrpc":5}`))}, "reply:200-json-odd"
	case 20:
		return proxykit.Reply{Kind: proxykit.ReplyRawBody, Body: []byte(g.pick(`{"jsonrpc":"2.0","id":1,"error":{"code":0,"message":"zero code"}}`, `{"jsonrpc":"2.0","id":1,"result":5,"error":{"code":0,"message":"zero code"}}`, `{"jsonrpc":"2.0","id":1,"result":5,"error":null}`, `{"jsonrpc":"2.0","id":1,"result":5,"error":{"code":-32000,"message":"both"}}`))}, "reply:200-error-code0-or-both"
	case 21:
		r := result(g.value(1).Text(0))
		r.EchoID = json.RawMessage(g.pick(`99`, `"zzz"`, `null`, `{"x":1}`, `"000000001"`))
		return r, "reply:echo-other-id"
	case 22:
		return proxykit.Reply{Kind: proxykit.ReplyRawBody, Body: []byte(g.pick(`{"jsonrpc":"1.0","id":1,"result":"v","method":"eth_subscription","params":{"subscription":"0x1"}}`, `{"JSONRPC":"2.0","ID":3,"RESULT":[1],"result":[2]}`, `{"result":1,"result":null}`, `{"jsonrpc":null,"result":true}`))}, "reply:200-extra-members"
	case 23:
		return proxykit.Reply{Kind: proxykit.ReplyHTTPError, Status: 204}, "reply:204"
	case 24:
		return proxykit.Reply{Kind: proxykit.ReplyRPCError, Code: []int64{1, -1, 9223372036854775807, -32603, -32700}[g.r.Intn(5)], Message: "m"}, "reply:rpcerror-codes"
	default:
		return result(fmt.Sprintf(`"r%d"`, g.r.Intn(100000))), "reply:result-str"
	}
}

type member struct {
	tree      *J
	delayKey  string // byKey entry whose reply may be delayed to control the completion order
	delayAddr string // or: count entry
	tags      []string
}

func (g *gen) tag(t ...string) {
	for _, x := range t {
		g.st.Hit(x)
	}
}

// envelope builds the request object; style 0 plain, 1 odd key casing / duplicates.
func (g *gen) envelope(id *J, hasID bool, method *J, params *J) *J {
	o := jobj()
	odd := g.r.Intn(14) == 0 && !g.plainEnv
	kj, ki, km, kp := "jsonrpc", "id", "method", "params"
	if odd {
		g.tag("env:odd-key-casing")
		kj, ki, km, kp = g.pick("JSONRPC", "jsonRpc", "jsonrpc"), g.pick("ID", "Id", "id"), g.pick("METHOD", "Method", "method"), g.pick("PARAMS", "Params", "paramſ", "params")
	}
	order := g.r.Intn(6)
	add := func(which int) {
		switch which {
		case 0:
			switch g.r.Intn(12) {
			case 0:
			case 1:
				o.set(kj, jstr("1.0"))
			default:
				o.set(kj, jstr("2.0"))
			}
		case 1:
			if hasID {
				o.set(ki, id)
			}
		case 2:
			if method != nil {
				o.set(km, method)
			}
		case 3:
			if params != nil {
				o.set(kp, params)
			}
		}
	}
	perms := [][]int{{0, 1, 2, 3}, {0, 2, 3, 1}, {1, 0, 2, 3}, {2, 3, 1, 0}, {3, 2, 1, 0}, {0, 1, 3, 2}}
	for _, w := range perms[order] {
		add(w)
	}
	if odd && g.r.Bool() && hasID {
		// duplicate member: the later one wins
		g.tag("env:duplicate-key")
		switch g.r.Intn(3) {
		case 0:
			o.set("id", jnum("777"))
		case 1:
			o.set("extra", g.value(1))
		default:
			o.set("method", jstr("dup_method"))
		}
	}
	return o
}

func (g *gen) passthrough(rl *rules) member {
	g.uniq++
	var method string
	switch g.r.Intn(12) {
	case 0:
		method = "eth_sendRawTransaction"
	case 1:
		method = "eth_getTransactionCount"
	case 2:
		method = g.pick("ETH_ACCOUNTS", "eth_accounts ", "eth_sendtransaction", "Eth_SendTransaction", "personal_sign", "eth_signTransaction")
	case 3:
		method = g.pick("", "метод", "a b", "net_version", "\"q\"")
	case 4, 5:
		method = g.pick("eth_call", "eth_getBalance", "eth_blockNumber", "eth_chainId", "eth_estimateGas", "eth_getLogs")
	default:
		method = fmt.Sprintf("eth_m%d", g.uniq)
	}
	var params *J
	ptag := ""
	switch g.r.Intn(10) {
	case 0:
		params, ptag = nil, "params:absent"
	case 1:
		params, ptag = &J{K: 4, A: []*J{}}, "params:empty"
	case 2:
		params, ptag = jarr(jnull(), jnum(fmt.Sprint(g.uniq))), "params:null-element"
	case 3:
		params, ptag = jarr(g.deep(20+g.r.Intn(40)), jnum(fmt.Sprint(g.uniq))), "params:deep"
	case 4:
		params, ptag = jarr(jnum("115792089237316195423570985008687907853269984665640564039457584007913129639935"), jnum("1e400"), jnum("-0.0"), jnum(fmt.Sprint(g.uniq))), "params:big-numbers"
	case 5:
		params, ptag = jarr(jstr(g.pick(unicodeStrings...)), jstr(fmt.Sprint("u", g.uniq))), "params:unicode"
	default:
		n := 1 + g.r.Intn(3)
		params = &J{K: 4}
		for i := 0; i < n; i++ {
			params.A = append(params.A, g.value(3))
		}
		params.A = append(params.A, jnum(fmt.Sprint(g.uniq)))
		ptag = "params:nested"
	}
	id, itag := g.id()
	rep, rtag := g.reply()
	var raw []json.RawMessage
	if params != nil {
		for _, p := range params.A {
			raw = append(raw, json.RawMessage(compact(p.Text(0))))
		}
	}
	key := frameKey(method, raw)
	rl.byKey[key] = rep
	g.tag("member:passthrough", ptag, itag, rtag)
	return member{tree: g.envelope(id, true, jstr(method), params), delayKey: key, tags: []string{"passthrough", rtag}}
}

// compact gives the text the proxy will forward (json.Marshal of a RawMessage: compacted, HTML-escaped).
func compact(s string) string {
	b, err := json.Marshal(json.RawMessage(s))
	if err != nil {
		return s
	}
	return string(b)
}

func (g *gen) numForm(n *big.Int) *J {
	switch g.r.Intn(5) {
	case 0:
		return jstr(n.String())
	case 1:
		return jnum(n.String())
	case 2:
		return jstr("0x" + strings.ToUpper(n.Text(16)))
	default:
		return jstr("0x" + n.Text(16))
	}
}

var dataSizesQuick = []int{0, 0, 1, 4, 31, 32, 33, 36, 55, 56, 68, 100, 200, 300}
var dataSizesThorough = []int{1024, 4096, 20000}

func (g *gen) amount() *big.Int {
	switch g.r.Intn(8) {
	case 0:
		return big.NewInt(0)
	case 1:
		return big.NewInt(int64(g.r.Intn(256)))
	case 2:
		return new(big.Int).SetUint64(g.r.U64())
	case 3:
		return new(big.Int).Lsh(big.NewInt(1), uint(g.r.Intn(200)))
	case 4:
		return new(big.Int).SetBytes(g.r.Bytes(1 + g.r.Intn(32)))
	default:
		return big.NewInt(int64(g.r.Intn(1000000)))
	}
}

func (g *gen) sendTx(rl *rules, thorough bool) member { return g.sendTxFrom(rl, thorough, nil) }

func (g *gen) sendTxFrom(rl *rules, thorough bool, force *fromSpec) member {
	tx := jobj()
	tags := []string{"member:sendTx"}
	key := g.keys[g.r.Intn(len(g.keys))]
	fromHex := hex.EncodeToString(key.Address[:])
	fromKind := g.r.Intn(24)
	clean := force != nil && force.clean
	var from *J
	switch {
	case force != nil:
		fromHex = force.hex
		from = jstr([]string{"0x" + fromHex, "0x" + strings.ToUpper(fromHex), fromHex, "0x" + mixedCase(fromHex)}[force.style%4])
		tags = append(tags, force.tag)
	case fromKind >= 20 && len(g.bad) > 0:
		b := g.bad[g.r.Intn(len(g.bad))]
		fromHex = b.hex()
		from = jstr([]string{"0x" + fromHex, "0x" + fromHex, "0x" + fromHex, "0x" + strings.ToUpper(fromHex), fromHex, "0x" + mixedCase(fromHex)}[g.r.Intn(6)])
		tags = append(tags, "from:listed-"+b.kind)
	case fromKind == 19:
		from = jstr("0x" + mixedCase(fromHex))
		tags = append(tags, "from:known-mixed-case")
	case fromKind < 11:
		from = jstr("0x" + fromHex)
		tags = append(tags, "from:known")
	case fromKind < 12:
		from = jstr("0x" + strings.ToUpper(fromHex))
		tags = append(tags, "from:known-uppercase")
	case fromKind < 13:
		from = jstr(fromHex)
		tags = append(tags, "from:known-no-prefix")
	case fromKind < 16:
		from = jstr("0x" + hex.EncodeToString(g.r.Bytes(20)))
		tags = append(tags, "from:unknown")
	case fromKind < 17:
		b := append([]byte{}, key.Address[:]...)
		b[19] ^= 1
		from = jstr("0x" + hex.EncodeToString(b))
		tags = append(tags, "from:unknown-one-bit-off")
	case fromKind < 18:
		from = []*J{jstr("0x1234"), jstr(""), jstr("0X" + fromHex), jstr("0x" + fromHex + "00"), jstr("zz" + fromHex[2:]), jnum("1"), jnull(), jobj().set("a", jnum("1")), jarr(jstr("0x" + fromHex)), jbool(true)}[g.r.Intn(10)]
		tags = append(tags, "from:malformed")
	case fromKind < 19:
		from = nil
		tags = append(tags, "from:absent")
	default:
		from = jstr("0x" + fromHex)
		tags = append(tags, "from:known")
	}
	// fields in a random order
	type kv struct {
		k string
		v *J
	}
	var fs []kv
	if from != nil {
		fs = append(fs, kv{g.pick("from", "from", "from", "From", "FROM"), from})
	}
	hasNonce := g.r.Intn(2) == 0
	if force != nil && force.nonce {
		hasNonce = true
	}
	if hasNonce {
		n := big.NewInt(int64(g.r.Intn(300)))
		switch g.r.Intn(6) {
		case 0:
			n = big.NewInt(0)
		case 1:
			n = new(big.Int).SetUint64(g.r.U64())
		case 2:
			n = new(big.Int).Lsh(big.NewInt(1), 70)
		}
		if g.r.Intn(25) == 0 && !clean {
			fs = append(fs, kv{"nonce", []*J{jstr("0xzz"), jstr("-1"), jstr(""), jbool(true), jarr(), jstr("abc")}[g.r.Intn(6)]})
			tags = append(tags, "nonce:malformed")
		} else {
			fs = append(fs, kv{"nonce", g.numForm(n)})
			tags = append(tags, "nonce:supplied")
		}
	} else if g.r.Intn(10) == 0 {
		fs = append(fs, kv{"nonce", jnull()})
		tags = append(tags, "nonce:null")
	} else {
		tags = append(tags, "nonce:absent")
	}
	shape := g.r.Intn(10)
	switch {
	case shape < 4:
		fs = append(fs, kv{"gasPrice", g.numForm(g.amount())})
		tags = append(tags, "shape:legacy")
	case shape < 5:
		tags = append(tags, "shape:legacy-no-gasprice")
	case shape < 7:
		fs = append(fs, kv{"maxPriorityFeePerGas", g.numForm(new(big.Int).Add(g.amount(), big.NewInt(1)))}, kv{"maxFeePerGas", g.numForm(new(big.Int).Add(g.amount(), big.NewInt(1)))})
		tags = append(tags, "shape:1559-both")
	case shape < 8:
		if g.r.Bool() {
			fs = append(fs, kv{"maxFeePerGas", g.numForm(new(big.Int).Add(g.amount(), big.NewInt(1)))})
		} else {
			fs = append(fs, kv{"maxPriorityFeePerGas", g.numForm(new(big.Int).Add(g.amount(), big.NewInt(1)))}, kv{"maxFeePerGas", jstr("0x0")})
		}
		tags = append(tags, "shape:1559-one-fee")
	case shape < 9:
		fs = append(fs, kv{"gasPrice", g.numForm(g.amount())}, kv{"maxPriorityFeePerGas", g.numForm(new(big.Int).Add(g.amount(), big.NewInt(1)))}, kv{"maxFeePerGas", g.numForm(g.amount())})
		tags = append(tags, "shape:1559-with-gasprice")
	default:
		fs = append(fs, kv{"gasPrice", g.numForm(g.amount())}, kv{"maxPriorityFeePerGas", jstr("0x0")}, kv{"maxFeePerGas", jnum("0")})
		tags = append(tags, "shape:legacy-zero-1559-fees")
	}
	if g.r.Intn(8) != 0 {
		fs = append(fs, kv{"gas", g.numForm(big.NewInt(int64(21000 + g.r.Intn(5000000))))})
	}
	switch g.r.Intn(8) {
	case 0:
		tags = append(tags, "to:absent-creation")
	case 1:
		fs = append(fs, kv{"to", jnull()})
		tags = append(tags, "to:null-creation")
	case 2:
		if g.r.Intn(3) == 0 && !clean {
			fs = append(fs, kv{"to", []*J{jstr("0x12"), jstr(""), jnum("5"), jstr("0x" + strings.Repeat("0", 41))}[g.r.Intn(4)]})
			tags = append(tags, "to:malformed")
		} else {
			fs = append(fs, kv{"to", jstr(strings.ToUpper(hex.EncodeToString(g.r.Bytes(20))))})
			tags = append(tags, "to:uppercase-no-prefix")
		}
	default:
		fs = append(fs, kv{"to", jstr("0x" + hex.EncodeToString(g.r.Bytes(20)))})
		tags = append(tags, "to:address")
	}
	if g.r.Intn(4) != 0 {
		fs = append(fs, kv{"value", g.numForm(g.amount())})
	}
	switch g.r.Intn(10) {
	case 0:
		tags = append(tags, "data:absent")
	case 1:
		fs = append(fs, kv{"data", jnull()})
		tags = append(tags, "data:null")
	case 2:
		if g.r.Bool() || clean {
			fs = append(fs, kv{"data", jstr("0x")})
			tags = append(tags, "data:0x")
		} else {
			fs = append(fs, kv{"data", []*J{jstr("0x123"), jstr("0xzz"), jnum("1"), jarr()}[g.r.Intn(4)]})
			tags = append(tags, "data:malformed")
		}
	default:
		sizes := dataSizesQuick
		if thorough && g.r.Intn(6) == 0 {
			sizes = dataSizesThorough
		}
		n := sizes[g.r.Intn(len(sizes))]
		d := g.r.Bytes(n)
		if n == 1 && g.r.Bool() {
			d[0] = []byte{0x00, 0x7f, 0x80}[g.r.Intn(3)]
		}
		pre := "0x"
		if g.r.Intn(8) == 0 {
			pre = ""
		}
		fs = append(fs, kv{"data", jstr(pre + hex.EncodeToString(d))})
		tags = append(tags, fmt.Sprintf("data:%dB", n))
	}
	if g.r.Intn(6) == 0 {
		fs = append(fs, kv{g.pick("chainId", "type", "accessList", "input"), g.value(1)})
		tags = append(tags, "tx:unknown-extra-field")
	}
	if g.r.Intn(15) == 0 {
		fs = append(fs, kv{"GAS", g.numForm(big.NewInt(int64(30000 + g.r.Intn(100))))})
		tags = append(tags, "tx:duplicate-gas-other-case")
	}
	// shuffle
	for i := len(fs) - 1; i > 0; i-- {
		j := g.r.Intn(i + 1)
		fs[i], fs[j] = fs[j], fs[i]
	}
	for _, f := range fs {
		tx.set(f.k, f.v)
	}
	var params *J
	pk := g.r.Intn(16)
	if clean && pk == 1 {
		pk = 2
	}
	switch pk {
	case 0:
		params = jarr(tx, jstr("extra"), jnum("1"))
		tags = append(tags, "sendTx-params:extra-elements")
	case 1:
		switch g.r.Intn(5) {
		case 0:
			params = &J{K: 4, A: []*J{}}
		case 1:
			params = nil
		case 2:
			params = jarr(jnull())
		case 3:
			params = jarr(jstr("0x" + fromHex))
		default:
			params = jarr(jarr(tx))
		}
		tags = append(tags, "sendTx-params:bad-shape")
	default:
		params = jarr(tx)
	}
	// backend behaviour for this member
	m := member{tags: tags}
	addr := "0x" + fromHex
	if !hasNonce {
		var rep proxykit.Reply
		var t string
		switch g.r.Intn(14) {
		case 0:
			rep, t = result(`"0x0"`), "count:0x0"
		case 1:
			rep, t = result(fmt.Sprint(g.r.Intn(1000))), "count:json-number"
		case 2:
			rep, t = result(`"`+fmt.Sprint(g.r.Intn(1000))+`"`), "count:decimal-string"
		case 3:
			rep, t = result(`null`), "count:null"
		case 4:
			rep, t = result(`"0xffffffffffffffffff"`), "count:72-bit"
		case 5:
			rep, t = result(g.pick(`"zz"`, `true`, `{"n":1}`, `"-1"`, `[1]`, `""`)), "count:unparsable"
		case 6:
			rep, t = proxykit.Reply{Kind: proxykit.ReplyRPCError, Code: -32000, Message: "no state"}, "count:rpcerror"
		case 7:
			rep, t = g.reply()
			t = "count:" + t
		default:
			rep, t = result(fmt.Sprintf(`"0x%x"`, g.r.Intn(100000))), "count:hex"
		}
		// The run's parse_int instance (Rpc/RunC09.v parse_int_run) covers plain decimal and 0x-hex texts
		// only; exponent / fraction / octal / underscore notations that BigIntegerFromString also accepts
		// ("1E+2" = 100) are property C19's.  A nonce answer outside that region would make the model refuse
		// what the proxy rightly signs (false alarm on seed 5, round 3): take another answer.
		for tries := 0; tries < 50 && outsideIntRegion(rep); tries++ {
			g.tag("count:regenerated-outside-parse-int-region")
			rep, t = g.reply()
			t = "count:" + t
		}
		if old, ok := rl.count[addr]; ok {
			rep = old
			t = "count:shared-with-earlier-member"
		} else {
			rl.count[addr] = rep
		}
		m.tags = append(m.tags, t)
		m.delayAddr = addr
	}
	id, itag := g.id()
	m.tags = append(m.tags, itag)
	m.tree = g.envelope(id, true, jstr("eth_sendTransaction"), params)
	g.tag(m.tags...)
	return m
}

func (g *gen) accounts() member {
	id, itag := g.id()
	var params *J
	switch g.r.Intn(4) {
	case 0:
		params = nil
	case 1:
		params = &J{K: 4, A: []*J{}}
	case 2:
		params = jarr(g.value(1))
	default:
		params = nil
	}
	g.tag("member:accounts", itag)
	return member{tree: g.envelope(id, true, jstr(g.pick("eth_accounts", "eth_accounts", "personal_accounts")), params), tags: []string{"accounts"}}
}

// badMember: a request the proxy must answer with an error object (missing / null id, wrong shapes).
func (g *gen) badMember(rl *rules) member {
	g.uniq++
	meth := jstr(fmt.Sprintf("eth_b%d", g.uniq))
	switch g.r.Intn(6) {
	case 0:
		g.tag("member:no-id")
		return member{tree: g.envelope(nil, false, meth, jarr(jnum("1"))), tags: []string{"no-id"}}
	case 1:
		g.tag("member:null-id")
		return member{tree: g.envelope(jnull(), true, meth, nil), tags: []string{"null-id"}}
	case 2:
		g.tag("member:no-id-sendTx")
		return member{tree: g.envelope(nil, false, jstr("eth_sendTransaction"), jarr(jobj().set("from", jstr(g.keys[0].Hex())))), tags: []string{"no-id"}}
	case 3:
		g.tag("member:no-method")
		id, _ := g.id()
		return member{tree: g.envelope(id, true, nil, jarr(jnum(fmt.Sprint(g.uniq)))), tags: []string{"no-method"}}
	case 4:
		g.tag("member:null-method-null-params")
		id, _ := g.id()
		return member{tree: g.envelope(id, true, jnull(), jnull()), tags: []string{"null-method"}}
	default:
		g.tag("member:empty-object")
		return member{tree: jobj(), tags: []string{"empty-object"}}
	}
}

func (g *gen) anyMember(rl *rules, thorough bool) member {
	switch c := g.r.Intn(20); {
	case c < 8:
		return g.passthrough(rl)
	case c < 15:
		return g.sendTx(rl, thorough)
	case c < 17:
		return g.accounts()
	default:
		return g.badMember(rl)
	}
}

type scenario struct {
	family string
	body   []byte
	tree   *J
	order  []int
	rules  *rules
	n      int // members
}

var spaceBytes = []string{" ", "\n", "\t", "\r", "  \n"}

func (g *gen) lead() string {
	if g.forceLead != nil {
		return *g.forceLead
	}
	switch g.r.Intn(12) {
	case 0:
		return strings.Repeat(g.pick(spaceBytes...), 1+g.r.Intn(5))
	case 1:
		return strings.Repeat(" ", []int{99, 100, 101, 150, 4096}[g.r.Intn(5)])
	default:
		return ""
	}
}

func (g *gen) single(rl *rules, m member) scenario {
	sp := 0
	if g.r.Intn(6) == 0 {
		sp = 1 + g.r.Intn(2)
	}
	body := g.lead() + m.tree.Text(sp)
	if g.r.Intn(10) == 0 {
		body += g.pick("\n", " ", "\r\n")
	}
	return scenario{family: "single", body: []byte(body), tree: m.tree, order: []int{0}, rules: rl, n: 1}
}

var batchSizes = []int{1, 2, 2, 3, 3, 4, 5, 6, 8, 11, 16, 24, 33, 48, 63, 64}

// batch of n members with a forced completion order for those whose last backend call can be delayed.
func (g *gen) batch(thorough bool, n int, kind string) scenario {
	rl := newRules()
	ms := make([]member, n)
	for i := range ms {
		switch kind {
		case "passthrough":
			ms[i] = g.passthrough(rl)
		case "sendTx":
			ms[i] = g.sendTx(rl, thorough)
		case "local":
			if g.r.Intn(3) == 0 {
				ms[i] = g.badMember(rl)
			} else {
				ms[i] = g.accounts()
			}
		default:
			ms[i] = g.anyMember(rl, thorough)
		}
	}
	return g.assemble(rl, ms, kind, "batch")
}

func (g *gen) assemble(rl *rules, ms []member, kind, family string) scenario {
	n := len(ms)
	// intended completion order
	order := make([]int, n)
	for i := range order {
		order[i] = i
	}
	otag := "order:identity"
	switch g.r.Intn(4) {
	case 0:
		for i, j := 0, n-1; i < j; i, j = i+1, j-1 {
			order[i], order[j] = order[j], order[i]
		}
		otag = "order:reverse"
	case 1, 2:
		for i := n - 1; i > 0; i-- {
			j := g.r.Intn(i + 1)
			order[i], order[j] = order[j], order[i]
		}
		otag = "order:random"
	}
	step := 12 * time.Millisecond
	if n > 16 {
		step = 6 * time.Millisecond
	}
	if family != "batch" {
		step = 4 * time.Millisecond // histories / concurrent rounds: overlap matters, the exact completion order does not
	}
	for rank, idx := range order {
		d := time.Duration(rank) * step
		if k := ms[idx].delayKey; k != "" {
			r := rl.byKey[k]
			r.Delay = d
			rl.byKey[k] = r
		} else if a := ms[idx].delayAddr; a != "" {
			r := rl.count[a]
			if r.Delay < d {
				r.Delay = d
			}
			rl.count[a] = r
		}
	}
	arr := &J{K: 4, A: []*J{}}
	for _, m := range ms {
		arr.A = append(arr.A, m.tree)
	}
	sp := 0
	if g.r.Intn(6) == 0 {
		sp = 1
	}
	body := g.lead() + arr.Text(sp)
	g.tag(family, fmt.Sprintf("batch-size:%d", n), otag, "batch-kind:"+kind)
	return scenario{family: family, body: []byte(body), tree: arr, order: order, rules: rl, n: n}
}

// ---- histories over addresses the wallet lists but must refuse to sign for (round 3) ----

func (g *gen) badSpec(b badAddr, style int) *fromSpec {
	return &fromSpec{hex: b.hex(), style: style, tag: "from:listed-" + b.kind, clean: true}
}

func (g *gen) goodSpec(k int, style int) *fromSpec {
	return &fromSpec{hex: hex.EncodeToString(g.keys[k%len(g.keys)].Address[:]), style: style, tag: "from:known", clean: true}
}

func (g *gen) historySingle(spec *fromSpec, family string) scenario {
	rl := newRules()
	s := g.single(rl, g.sendTxFrom(rl, false, spec))
	s.family = family
	g.tag(family)
	return s
}

// chainProbe: a caller relays net_version / eth_chainId through the proxy and the backend answers with
// a chain id OTHER than the one the process was started with; the proxy must relay the answer and keep
// signing under its own id (the good sender that follows in the history is judged under it).
func (g *gen) chainProbe(k int) scenario {
	rl := newRules()
	method := []string{"net_version", "eth_chainId", "net_version"}[k%3]
	rep := []proxykit.Reply{result(`"31337"`), result(`"0x7a69"`), result(`424242`)}[k%3]
	rl.byKey[frameKey(method, nil)] = rep
	g.uniq++
	id := jstr(fmt.Sprintf("chain-probe-%d", g.uniq))
	var tree *J
	if k%2 == 0 {
		tree = jobj().set("jsonrpc", jstr("2.0")).set("id", id).set("method", jstr(method))
	} else {
		tree = jobj().set("jsonrpc", jstr("2.0")).set("id", id).set("method", jstr(method)).set("params", &J{K: 4, A: []*J{}})
	}
	g.tag("history-chain-probe")
	return scenario{family: "history-chain-probe", body: []byte(tree.Text(0)), tree: tree, order: []int{0}, rules: rl, n: 1}
}

// historyBatch: good and refused senders interleaved in one batch, each refused address reps times
// (different spellings), with pass-through and accounts members between them.
func (g *gen) historyBatch(bads []badAddr, reps int) scenario {
	rl := newRules()
	var ms []member
	ms = append(ms, g.sendTxFrom(rl, false, g.goodSpec(0, 0)))
	for rep := 0; rep < reps; rep++ {
		for i, b := range bads {
			ms = append(ms, g.sendTxFrom(rl, false, g.badSpec(b, rep*(1+i))))
			switch {
			case (i+rep)%3 == 0:
				ms = append(ms, g.passthrough(rl))
			case i == 1:
				ms = append(ms, g.sendTxFrom(rl, false, g.goodSpec(i+rep, i)))
			}
		}
		ms = append(ms, g.accounts())
	}
	ms = append(ms, g.sendTxFrom(rl, false, g.goodSpec(len(g.keys)-1, 1)))
	return g.assemble(rl, ms, "history", "history-batch")
}

// leadBytes: every byte for which the proxy's batch/single sniffing (unicode.IsSpace on a single byte) answers
// "skip", its neighbours on both sides of each range, and NUL. Round 7 (seed C09-7: '\r' dropped from the
// skipped set): the random lead() reached a CR in front of a batch about once per run, so the set is now
// enumerated — one batch and one single request behind each byte, and behind the four-byte JSON whitespace mix.
var leadBytes = []string{"\t", "\n", "\v", "\f", "\r", " ", "\x85", "\xa0", "\x08", "\x0e", "\x1f", "!", "\x84", "\x86", "\x9f", "\xa1", "\x00",
	" \t\n\r", "\r\n", "\n\r \t"}

func jsonSpaceOnly(s string) bool {
	for i := 0; i < len(s); i++ {
		if s[i] != ' ' && s[i] != '\t' && s[i] != '\n' && s[i] != '\r' {
			return false
		}
	}
	return true
}

// leadCorpus(k): scenario k of the directed corpus (2 per lead: a batch of two, a single request).
func (g *gen) leadCorpus(k int) scenario {
	ld := leadBytes[(k/2)%len(leadBytes)]
	g.forceLead = &ld
	defer func() { g.forceLead = nil }()
	var sc scenario
	if k%2 == 0 {
		sc = g.batch(false, 2, []string{"passthrough", "mixed", "local"}[(k/2)%3])
	} else {
		rl := newRules()
		sc = g.single(rl, g.passthrough(rl))
	}
	sc.family = "lead-byte"
	g.tag("lead-byte:" + fmt.Sprintf("%q", ld))
	if !jsonSpaceOnly(ld) {
		// not JSON: no member may be executed, whatever the sniffing decided
		sc.tree, sc.n, sc.order = nil, 1, []int{0}
	}
	return sc
}

// malformed top-level bodies
func (g *gen) malformed(i int) scenario {
	rl := newRules()
	bodies := []string{
		``, ` `, `nope`, `{"jsonrpc":"2.0","id":1,"method":"eth_x"`, `[`, `[]`, ` [ ] `, `[1]`, `["a",{}]`, `17`, `"str"`, `true`, `null`,
		`{"jsonrpc":"2.0","id":1,"method":"eth_x","params":{"a":1}}`, `{"jsonrpc":"2.0","id":1,"method":5,"params":[]}`,
		`{"jsonrpc":2,"id":1,"method":"eth_x"}`, `[{"jsonrpc":"2.0","id":1,"method":"eth_x","params":"str"}]`,
		`[null]`, `[null,{"jsonrpc":"2.0","id":"ok","method":"eth_ok"}]`, `[{"jsonrpc":"2.0","id":"ok","method":"eth_ok"},null,17]`,
		"\v[{\"id\":1,\"method\":\"eth_x\"}]", " {\"id\":1,\"method\":\"eth_x\"}", `{"id":1,"method":"eth_x"} trailing`, `{"id":1,"method":"eth_x"}{"id":2}`,
		`[{"id":1,"method":"eth_accounts"}] x`, `{}`, `{"id":1}`, `{"id":{"deep":[1,2,{"x":null}]},"method":"eth_accounts"}`,
	}
	b := bodies[i%len(bodies)]
	t, err := parseJ([]byte(b))
	if err != nil {
		t = nil
	}
	n := 1
	if t != nil && t.K == 4 {
		n = len(t.A)
	}
	order := make([]int, n)
	for k := range order {
		order[k] = k
	}
	g.tag("malformed-body")
	return scenario{family: "malformed", body: []byte(b), tree: t, order: order, rules: rl, n: n}
}

// fixedWitness replays the inputs on which the pinned tree violated C09 before the fix commits
// (D09a f4f787a, D09b de2dd34, D09c 9edb119), singly and inside a batch.
func (g *gen) fixedWitness(k int) scenario {
	rl := newRules()
	pass := func(name string, rep proxykit.Reply) *J {
		rl.byKey[frameKey(name, nil)] = rep
		return jobj().set("jsonrpc", jstr("2.0")).set("id", jstr("id-"+name)).set("method", jstr(name))
	}
	ok := pass("eth_fixed_ok", result(`"fine"`))
	var tree *J
	fam := ""
	switch k {
	case 0:
		tree, fam = pass("eth_fixed_a0", proxykit.Reply{Kind: proxykit.ReplyHTTPError, Status: 500}), "fixed-D09a"
	case 1:
		tree, fam = pass("eth_fixed_a1", proxykit.Reply{Kind: proxykit.ReplyHTTPError, Status: 500, Body: []byte("oops"), ContentType: "text/plain"}), "fixed-D09a"
	case 2:
		tree, fam = jarr(ok, pass("eth_fixed_a2", proxykit.Reply{Kind: proxykit.ReplyHTTPError, Status: 502, Body: []byte(`{"result":1}`)})), "fixed-D09a"
	case 3:
		tree, fam = jobj().set("jsonrpc", jstr("2.0")).set("id", jnum("1")).set("method", jstr("eth_sendTransaction")).set("params", jarr(jobj().set("from", jstr("0x1234")))), "fixed-D09b"
	case 4:
		tree, fam = jarr(ok, jobj().set("jsonrpc", jstr("2.0")).set("id", jnum("2")).set("method", jstr("eth_sendTransaction")).set("params", jarr(jobj().set("from", jnull()).set("gas", jstr("0x1"))))), "fixed-D09b"
	case 5:
		tree, fam = pass("eth_fixed_c0", proxykit.Reply{Kind: proxykit.ReplyRawBody, Body: []byte("null")}), "fixed-D09c"
	case 6:
		tree, fam = jarr(pass("eth_fixed_c1", proxykit.Reply{Kind: proxykit.ReplyRawBody, Body: []byte("null")})), "fixed-D09c"
	case 7:
		tree, fam = jarr(ok, pass("eth_fixed_c2", proxykit.Reply{Kind: proxykit.ReplyRawBody, Body: []byte(" null ")}), ok), "fixed-D09c"
	default:
		// nonce lookup answered with the null body
		rl.countDef = proxykit.Reply{Kind: proxykit.ReplyRawBody, Body: []byte("null")}
		tree, fam = jarr(jobj().set("jsonrpc", jstr("2.0")).set("id", jnum("3")).set("method", jstr("eth_sendTransaction")).set("params", jarr(jobj().set("from", jstr(g.keys[0].Hex())).set("gas", jstr("0x5208"))))), "fixed-D09c"
	}
	n := 1
	if tree.K == 4 {
		n = len(tree.A)
	}
	order := make([]int, n)
	for i := range order {
		order[i] = i
	}
	g.tag(fam)
	return scenario{family: fam, body: []byte(tree.Text(0)), tree: tree, order: order, rules: rl, n: n}
}

// ---- concurrent clients (round 3): several POSTs in flight at once against the one process ----

type concScenario struct {
	sc   scenario
	keys map[string]bool // byKey entries of the pass-through members of this request
}

// concurrentRound builds k requests (singles and small batches) sharing one backend script: good and
// refused senders with supplied nonces (no count query), pass-through members with fresh keys,
// accounts.  Every frame can be attributed to its request: pass-through by its key, a raw
// transaction by the token the backend answers with (a function of the payload) that the proxy must
// relay to the caller.
func (g *gen) concurrentRound(k int) (*rules, []concScenario) {
	rl := newRules()
	rl.rawUnique = true
	g.plainEnv = true
	defer func() { g.plainEnv = false }()
	var out []concScenario
	freshPass := func() member {
		for {
			before := len(rl.byKey)
			m := g.passthrough(rl)
			if len(rl.byKey) == before+1 {
				return m
			}
			// key collided with an earlier member's (common method, same params): its reply was overwritten; take another
		}
	}
	for i := 0; i < k; i++ {
		cs := concScenario{keys: map[string]bool{}}
		var ms []member
		add := func(m member) {
			if m.delayKey != "" {
				cs.keys[m.delayKey] = true
			}
			ms = append(ms, m)
		}
		good := func(j int) member {
			sp := g.goodSpec(j, j%4)
			sp.nonce = true
			return g.sendTxFrom(rl, false, sp)
		}
		refused := func(j int) member {
			sp := g.badSpec(g.bad[j%len(g.bad)], j%4)
			sp.nonce = true
			return g.sendTxFrom(rl, false, sp)
		}
		switch i % 4 {
		case 0:
			add(good(i))
		case 1:
			add(refused(i / 4))
		case 2:
			add(freshPass())
		default:
			add(good(i))
			add(freshPass())
			add(refused(i/4 + 1))
			add(g.accounts())
			add(good(i + 1))
			add(freshPass())
		}
		if len(ms) == 1 {
			cs.sc = g.single(rl, ms[0])
			cs.sc.family = "concurrent-single"
		} else {
			cs.sc = g.assemble(rl, ms, "concurrent", "concurrent-batch")
		}
		g.tag(cs.sc.family)
		out = append(out, cs)
	}
	// collisions between pass-through keys would make attribution ambiguous: freshPass excludes them
	return rl, out
}
