// Case generation for C11.
package main

import (
	"encoding/hex"
	"fmt"
	"math/big"
	"strings"

	"verifharness/cv"
)

func unhex(s string) []byte {
	b, err := hex.DecodeString(s)
	if err != nil {
		panic(err)
	}
	return b
}

func cat(bs ...[]byte) []byte {
	var out []byte
	for _, b := range bs {
		out = append(out, b...)
	}
	return out
}

func wordHex(s string) []byte {
	z, _ := new(big.Int).SetString(s, 16)
	return word(z)
}

// wordyRandom: random data in which most words look like offsets / counts (small numbers,
// multiples of 32, values near the length), so that decoding gets past the first word.
func wordyRandom(r *cv.Rand, n int) []byte {
	out := make([]byte, 0, n+32)
	for len(out) < n {
		var w []byte
		switch r.Intn(8) {
		case 0:
			w = r.Bytes(32)
		case 1:
			w = wordInt(32 * r.Intn(n/32+2))
		case 2:
			w = wordInt(r.Intn(n + 2))
		case 3:
			w = wordInt(r.Intn(4))
		case 4:
			w = wordInt(n - 32*r.Intn(3))
		default:
			w = wordInt(32 * (1 + r.Intn(6)))
		}
		out = append(out, w...)
	}
	return out[:n]
}

func (d *driver) generate() {
	r := cv.NewRand(11)
	u256 := el(kUint, 256, 0)

	// ---------------------------------------------------------------------------------------
	// fixed corpus: the D11a witnesses and the flip points of the repaired guard
	// ---------------------------------------------------------------------------------------
	arr := wrap1(dyn(u256))
	d.addDec(arr, cat(wordInt(32), wordHex("ffffffff")), 0, "corpus:D11a-count-2^32-1")
	d.addDec(arr, cat(wordInt(32), wordHex("ffffff")), 0, "corpus:D11a-count-2^24-1")
	d.addDec(arr, cat(wordInt(32), wordHex("7fffffff")), 0, "corpus:D11a-count-2^31-1")
	d.addDec(arr, cat(wordInt(32), wordInt(0x20)), 0, "corpus:count-32-no-data")
	for _, rem := range []int{0, 1, 31, 32, 33, 63, 64, 65, 96} {
		for dc := -1; dc <= 2; dc++ {
			c := rem/32 + dc
			if c < 0 {
				continue
			}
			data := cat(wordInt(32), wordInt(c), r.Bytes(rem))
			d.addDec(arr, data, 0, "corpus:guard-flip")
			d.addDec(wrap1(dyn(el(kBytesN, 1, 0))), data, 0, "corpus:guard-flip")
			d.addDec(wrap1(dyn(el(kFunction, 0, 0))), data, 0, "corpus:guard-flip")
			d.addDec(wrap1(dyn(tup(el(kBytesN, 2, 0), el(kUint, 8, 0)))), data, 0, "corpus:guard-flip")
			d.addDec(wrap1(dyn(fix(el(kBytesN, 2, 0), 2))), data, 0, "corpus:guard-flip")
			d.addDec(wrap1(dyn(el(kBytes, 0, 0))), cat(wordInt(32), wordInt(c), wordyRandom(r, rem)), 0, "corpus:guard-flip")
		}
	}
	// D11b: a fixed array whose declared length the data cannot hold (the type, not the data, names the size)
	for _, k := range []int{4294967295, 2147483647, 16777215, 65536} {
		d.addDec(wrap1(fix(u256, k)), nil, 0, "corpus:D11b-declared-length")
		d.addDec(wrap1(fix(u256, k)), r.Bytes(64), 0, "corpus:D11b-declared-length")
		d.addDec(wrap1(fix(el(kString, 0, 0), k)), wordInt(32), 0, "corpus:D11b-declared-length")
		d.addDec(tup(el(kUint, 8, 0), fix(tup(el(kBytesN, 2, 0), el(kBool, 0, 0)), k)), cat(wordInt(1), r.Bytes(96)), 0, "corpus:D11b-declared-length")
		d.addDec(wrap1(dyn(fix(u256, k))), cat(wordInt(32), wordInt(1), r.Bytes(64)), 0, "corpus:D11b-declared-length")
	}
	// ... and the flip points of that guard: k entries against a remaining length r
	for _, rem := range []int{0, 1, 31, 32, 33, 63, 64, 65, 96, 128} {
		for dk := -1; dk <= 2; dk++ {
			k := rem/32 + dk
			if k < 1 {
				continue
			}
			data := r.Bytes(rem)
			d.addDec(wrap1(fix(u256, k)), data, 0, "corpus:fixed-guard-flip")
			d.addDec(wrap1(fix(el(kBytesN, 1, 0), k)), data, 0, "corpus:fixed-guard-flip")
			d.addDec(wrap1(fix(el(kFunction, 0, 0), k)), data, 0, "corpus:fixed-guard-flip")
			d.addDec(wrap1(fix(tup(el(kBytesN, 2, 0), el(kUint, 8, 0)), k)), data, 0, "corpus:fixed-guard-flip")
			d.addDec(tup(el(kUint, 8, 0), fix(el(kBytesN, 3, 0), k)), cat(wordInt(5), data), 0, "corpus:fixed-guard-flip")
			// dynamic entries: offset to the array, then k offsets
			d.addDec(wrap1(fix(el(kBytes, 0, 0), k)), cat(wordInt(32), wordyRandom(r, rem)), 0, "corpus:fixed-guard-flip")
			d.addDec(wrap1(fix(dyn(el(kUint, 8, 0)), k)), cat(wordInt(32), wordyRandom(r, rem)), 0, "corpus:fixed-guard-flip")
			d.addDec(wrap1(fix(fix(u256, 0), k)), data, 0, "corpus:fixed-guard-flip")
		}
	}
	// a bytes1[] whose last element is cut short after its single byte decoded before the repair and must still
	d.addDec(wrap1(dyn(el(kBytesN, 1, 0))), cat(wordInt(32), wordInt(2), padRight([]byte{0xaa}), []byte{0xbb}), 0, "corpus:last-element-cut-short")
	d.addDec(wrap1(dyn(el(kFunction, 0, 0))), cat(wordInt(32), wordInt(2), padRight(r.Bytes(24)), r.Bytes(24)), 0, "corpus:last-element-cut-short")
	d.addDec(wrap1(dyn(el(kFunction, 0, 0))), cat(wordInt(32), wordInt(2), padRight(r.Bytes(24)), r.Bytes(23)), 0, "corpus:last-element-cut-short")
	// bytes / string with a hostile length word
	for _, l := range []string{"ffffffff", "100000000", "7fffffff", "41", "40", "3f"} {
		d.addDec(wrap1(el(kBytes, 0, 0)), cat(wordInt(32), wordHex(l), r.Bytes(64)), 0, "corpus:bytes-length")
		d.addDec(wrap1(el(kString, 0, 0)), cat(wordInt(32), wordHex(l), r.Bytes(64)), 0, "corpus:bytes-length")
	}
	// offsets that point at themselves / backwards / far away
	for _, o := range []string{"0", "20", "40", "60", "ffffffe0", "ffffffff", "100000000"} {
		d.addDec(wrap1(dyn(dyn(u256))), cat(wordHex(o), wordInt(1), wordHex(o), wordInt(1), wordInt(7)), 0, "corpus:offset-loop")
		d.addDec(wrap1(tup(el(kString, 0, 0), u256)), cat(wordHex(o), wordHex(o), wordInt(2), wordInt(0x4142)), 0, "corpus:offset-loop")
	}
	// alias bombs of moderate size: every outer element points at the same inner array, so the
	// decoded size is the product of the counts - the reason the bound is a polynomial in |data|
	for _, n := range []int{4, 16, 40} {
		var b []byte
		b = append(b, wordInt(32)...)
		b = append(b, wordInt(n)...) // outer count
		for i := 0; i < n; i++ {
			b = append(b, wordInt(32*n)...) // all offsets -> the inner array right after the offsets
		}
		b = append(b, wordInt(n)...) // inner count
		for i := 0; i < n; i++ {
			b = append(b, wordInt(i)...)
		}
		d.addDec(wrap1(dyn(dyn(u256))), b, 0, "corpus:alias-bomb")
		d.addDec(wrap1(dyn(el(kBytes, 0, 0))), b, 0, "corpus:alias-bomb")
		d.addDec(wrap1(dyn(dyn(dyn(el(kUint, 8, 0))))), b, 0, "corpus:alias-bomb")
	}
	// ... and the large one, implementation only (known finding C11/alias-bomb-superlinear)
	d.aliasBombWitness()
	// DecodeABIData at a non-zero offset, at and beyond the end
	// (1<<31, 1<<62-64: the caller's offset is a Go int; the model's offsets are mathematical integers
	// and agree with the code as long as offset + 32 and the sums with 32-bit words from the data do not
	// wrap, i.e. below 2^62 - declared in props/C11.json; DecodeABIData(b, math.MaxInt64-10) panics)
	for _, off := range []int{0, 4, 32, 64, 65, 1000, 1 << 31, 1<<62 - 64} {
		d.addDec(tup(u256, el(kBytes, 0, 0)), cat(r.Bytes(4), wordInt(7), wordInt(64), wordInt(3), padRight([]byte{1, 2, 3})), off, "corpus:offset-arg")
	}
	// no parameters at all
	d.addDec(tup(), nil, 0, "corpus:empty-params")
	d.addDec(tup(), r.Bytes(40), 0, "corpus:empty-params")

	// ---------------------------------------------------------------------------------------
	// structured: valid encodings, every marked word x boundary values, truncation / extension
	// ---------------------------------------------------------------------------------------
	shapes := systematicShapes()
	nRandTypes := 60
	perShapeWord := 10 // sampled (word, value) replacements per shape in the quick tier
	perShapeCut := 5
	if d.thorough {
		nRandTypes = 600
	}
	for i := 0; i < nRandTypes; i++ {
		shapes = append(shapes, randType(r, 1+r.Intn(4), 2))
	}
	var pool [][2]interface{} // (type, valid encoding) for the entry-point generators below
	for si, sh := range shapes {
		var t *T
		switch {
		case sh.K == kTuple && si%3 == 0:
			t = sh // the shape's members are the parameters
		case si%5 == 0:
			t = tup(el(kUint, 8, 0), sh, el(kString, 0, 0))
		default:
			t = wrap1(sh)
		}
		if len(t.Kids) == 0 {
			t = wrap1(sh)
		}
		e := genEnc(r, t, sizeHint{maxCount: 3, maxBytes: 70})
		if len(e.b) > 6000 {
			continue
		}
		d.addDec(t, e.b, 0, "valid")
		if len(pool) < 400 {
			pool = append(pool, [2]interface{}{t, e.b})
		}
		// word replacement
		type rep struct {
			m mark
			v *big.Int
		}
		var reps []rep
		for _, m := range e.marks {
			for _, v := range boundaryWords(len(e.b), m.Pos) {
				reps = append(reps, rep{m, v})
			}
		}
		if !d.thorough && len(reps) > perShapeWord {
			// deterministic sample: shuffle with the case PRNG
			for i := len(reps) - 1; i > 0; i-- {
				j := r.Intn(i + 1)
				reps[i], reps[j] = reps[j], reps[i]
			}
			reps = reps[:perShapeWord]
		}
		for _, rp := range reps {
			d.addDec(t, replaceWord(e.b, rp.m.Pos, rp.v), 0, "word:"+rp.m.Role.String())
		}
		// an unmarked (value) word replaced as well, now and then
		if len(e.b) >= 32 && si%4 == 0 {
			p := 32 * r.Intn(len(e.b)/32)
			bw := boundaryWords(len(e.b), p)
			d.addDec(t, replaceWord(e.b, p, bw[r.Intn(len(bw))]), 0, "word:any")
		}
		// truncation at every word boundary and +-1, extension
		var cuts []int
		for k := 0; k <= len(e.b)/32; k++ {
			for _, dlt := range []int{-1, 0, 1} {
				if c := 32*k + dlt; c >= 0 && c < len(e.b) {
					cuts = append(cuts, c)
				}
			}
		}
		if !d.thorough && len(cuts) > perShapeCut {
			for i := len(cuts) - 1; i > 0; i-- {
				j := r.Intn(i + 1)
				cuts[i], cuts[j] = cuts[j], cuts[i]
			}
			cuts = cuts[:perShapeCut]
		}
		for _, c := range cuts {
			d.addDec(t, e.b[:c], 0, "truncate")
		}
		if si%3 == 0 || d.thorough {
			for _, ext := range []int{1, 31, 32, 33} {
				d.addDec(t, cat(e.b, r.Bytes(ext)), 0, "extend")
			}
		}
	}

	// zero-size element types: inside the model, outside the memory clause; small counts only
	for _, sh := range zeroSizeShapes() {
		t := wrap1(sh)
		for _, c := range []int{0, 1, 2, 3, 40} {
			d.addDec(t, cat(wordInt(32), wordInt(c), wordyRandom(r, 32*r.Intn(4))), 0, "zero-size-elem")
			d.addDec(t, cat(wordInt(32), wordInt(c)), 0, "zero-size-elem")
		}
		d.addDec(t, cat(wordInt(32)), 0, "zero-size-elem")
		d.addDec(t, nil, 0, "zero-size-elem")
	}

	// ---------------------------------------------------------------------------------------
	// large inputs (up to 64 KiB): few, the model's slicing is linear in the position
	// ---------------------------------------------------------------------------------------
	{
		big1 := genEnc(r, wrap1(dyn(u256)), sizeHint{maxCount: 0})
		_ = big1
		n := 2046 // 64 + 32*2046 = 65536 bytes
		if !d.thorough {
			n = 700
		}
		var b []byte
		b = append(b, wordInt(32)...)
		b = append(b, wordInt(n)...)
		b = append(b, r.Bytes(32*n)...)
		t := wrap1(dyn(u256))
		d.addDec(t, b, 0, "large:valid")
		d.addDec(t, replaceWord(b, 32, big.NewInt(int64(n+1))), 0, "large:count+1")
		d.addDec(t, replaceWord(b, 32, big.NewInt(int64(n+2))), 0, "large:count+2")
		d.addDec(t, replaceWord(b, 32, big.NewInt(int64(32*n))), 0, "large:count=remaining")
		d.addDec(t, replaceWord(b, 32, big.NewInt(int64(32*n-1))), 0, "large:count=remaining-1")
		d.addDec(t, replaceWord(b, 32, big.NewInt(int64(4*n))), 0, "large:count=remaining/8")
		d.addDec(t, replaceWord(b, 32, big.NewInt(int64(2*n))), 0, "large:count=remaining/16")
		d.addDec(t, replaceWord(b, 32, wordAsInt("ffffffff")), 0, "large:count-2^32-1")
		d.addDec(wrap1(dyn(el(kBytesN, 1, 0))), replaceWord(b, 32, big.NewInt(int64(n+1))), 0, "large:count+1")
		// declared fixed lengths between what the data can hold and the data length in bytes (D11b:
		// a guard that forgets the factor 32 shows here)
		for _, k := range []int{len(b)/32 + 2, len(b) / 16, len(b) / 8, len(b) / 2, len(b) - 40, len(b) - 33, len(b)} {
			d.addDec(wrap1(fix(u256, k)), b, 0, "large:fixed-declared-length")
			d.addDec(wrap1(fix(el(kBytes, 0, 0), k)), b, 0, "large:fixed-declared-length")
			d.addDec(tup(u256, fix(tup(el(kBytesN, 1, 0), el(kBool, 0, 0)), k)), b, 0, "large:fixed-declared-length")
		}
		// the same bytes read as bytes / string[] / uint8[][]
		d.addDec(wrap1(el(kBytes, 0, 0)), replaceWord(b, 32, big.NewInt(int64(32*n))), 0, "large:valid")
		d.addDec(wrap1(el(kBytes, 0, 0)), replaceWord(b, 32, big.NewInt(int64(32*n+1))), 0, "large:len+1")
		d.addDec(wrap1(dyn(el(kString, 0, 0))), wordyRandom(r, len(b)), 0, "large:wordy-random")
		d.addDec(wrap1(dyn(dyn(el(kUint, 8, 0)))), wordyRandom(r, len(b)), 0, "large:wordy-random")
		d.addDec(tup(dyn(tup(u256, el(kBytes, 0, 0))), el(kString, 0, 0)), wordyRandom(r, len(b)), 0, "large:wordy-random")
		d.addDec(wrap1(dyn(u256)), r.Bytes(65536), 0, "large:random")
		d.addDec(wrap1(u256), r.Bytes(65536), 0, "large:random")
	}

	// ---------------------------------------------------------------------------------------
	// random bytes
	// ---------------------------------------------------------------------------------------
	nRand := 250
	if d.thorough {
		nRand = 4000
	}
	for i := 0; i < nRand; i++ {
		sh := shapes[r.Intn(len(shapes))]
		t := wrap1(sh)
		n := 32 * r.Intn(12)
		if r.Intn(4) == 0 {
			n += r.Intn(32)
		}
		if r.Intn(3) == 0 {
			d.addDec(t, r.Bytes(n), 0, "random")
		} else {
			d.addDec(t, wordyRandom(r, n), 0, "wordy-random")
		}
	}

	// ---------------------------------------------------------------------------------------
	// call data
	// ---------------------------------------------------------------------------------------
	for i, pe := range pool {
		if !d.thorough && i%3 != 0 {
			continue
		}
		t, enc := pe[0].(*T), pe[1].([]byte)
		name := []string{"f", "transfer", "x_1"}[i%3]
		sel := selector(name, t)
		d.addCall(name, t, cat(sel, enc), "call:valid")
		bad := append([]byte{}, sel...)
		bad[r.Intn(4)] ^= 1 << uint(r.Intn(8))
		d.addCall(name, t, cat(bad, enc), "call:wrong-selector")
		if i%6 == 0 {
			for k := 0; k <= 4; k++ {
				d.addCall(name, t, sel[:k], "call:short")
			}
			d.addCall(name, t, enc, "call:no-selector")
			if len(enc) >= 32 {
				p := 32 * r.Intn(len(enc)/32)
				bw := boundaryWords(len(enc)+4, p+4)
				d.addCall(name, t, cat(sel, replaceWord(enc, p, bw[r.Intn(len(bw))])), "call:word")
				d.addCall(name, t, cat(sel, enc[:r.Intn(len(enc))]), "call:truncate")
			}
		}
	}
	d.addCall("f", wrap1(dyn(u256)), cat(selector("f", wrap1(dyn(u256))), wordInt(32), wordHex("ffffffff")), "corpus:D11a-call")

	// ---------------------------------------------------------------------------------------
	// events: topic lists of length 0..5, widths 0/31/32/33 (implementation-only oracles; the data
	// part is the same decoder as above)
	// ---------------------------------------------------------------------------------------
	widths := []int{0, 31, 32, 33}
	nEv := 80
	if d.thorough {
		nEv = 1200
	}
	for i := 0; i < nEv; i++ {
		nIn := r.Intn(5)
		ks := make([]*T, nIn)
		var dataKids []*T
		nIdx := 0
		for j := range ks {
			k := randType(r, r.Intn(3), 2)
			cp := *k
			cp.Name = fmt.Sprintf("a%d", j)
			if r.Intn(2) == 0 {
				cp.Indexed = true
				nIdx++
			} else {
				dataKids = append(dataKids, &cp)
			}
			ks[j] = &cp
		}
		t := tup(ks...)
		anon := r.Intn(3) == 0
		dataT := tup(dataKids...)
		enc := genEnc(r, dataT, sizeHint{maxCount: 3, maxBytes: 40}).b
		h := sha3sig("Ev" + t.Sig())
		for nt := 0; nt <= 5; nt++ {
			topics := make([]string, nt)
			for k := range topics {
				w := widths[r.Intn(4)]
				if r.Intn(3) != 0 {
					w = 32
				}
				tb := r.Bytes(w)
				if w == 32 && r.Bool() {
					tb = wordInt(r.Intn(300))
				}
				if k == 0 && !anon && r.Intn(4) != 0 {
					tb = h
					if r.Intn(6) == 0 {
						tb = h[:31]
					}
				}
				topics[k] = hex.EncodeToString(tb)
			}
			data := enc
			switch r.Intn(5) {
			case 0:
				if len(enc) > 0 {
					data = enc[:r.Intn(len(enc))]
				}
			case 1:
				if len(enc) >= 32 {
					p := 32 * r.Intn(len(enc)/32)
					bw := boundaryWords(len(enc), p)
					data = replaceWord(enc, p, bw[r.Intn(len(bw))])
				}
			}
			rs := d.addEvent(t, anon, topics, data, "event")
			if rs == nil {
				continue
			}
			d.st.Hit(fmt.Sprintf("event:topics=%d", nt))
			need := nIdx
			if !anon {
				need++
			}
			_ = need
		}
	}

	// ---------------------------------------------------------------------------------------
	// revert data against 0..3 error definitions (+ the built-in Error(string))
	// ---------------------------------------------------------------------------------------
	nErr := 60
	if d.thorough {
		nErr = 800
	}
	for i := 0; i < nErr; i++ {
		nd := r.Intn(4)
		var defs []errDef
		var ts []*T
		for j := 0; j < nd; j++ {
			nIn := r.Intn(3)
			ks := make([]*T, nIn)
			for k := range ks {
				ks[k] = randType(r, r.Intn(3), 2)
			}
			t := tup(ks...)
			ts = append(ts, t)
			defs = append(defs, errDef{Name: fmt.Sprintf("E%d", j), Params: paramsJSON(t)})
		}
		var data []byte
		var t *T
		mut := ""
		switch c := r.Intn(6); {
		case c == 0 || nd == 0:
			t = tup(el(kString, 0, 0))
			data = cat(selector("Error", t), genEnc(r, t, sizeHint{maxBytes: 70}).b)
			mut = "revert:Error(string)"
		case c == 1:
			data = wordyRandom(r, 4+32*r.Intn(5))
			mut = "revert:random"
		default:
			j := r.Intn(nd)
			t = ts[j]
			data = cat(selector(defs[j].Name, t), genEnc(r, t, sizeHint{maxCount: 3, maxBytes: 40}).b)
			mut = "revert:custom"
		}
		switch r.Intn(4) {
		case 0:
			if len(data) > 0 {
				data = data[:r.Intn(len(data))]
				mut += "+truncate"
			}
		case 1:
			if len(data) >= 36 {
				p := 4 + 32*r.Intn((len(data)-4)/32)
				bw := boundaryWords(len(data), p)
				data = replaceWord(data, p, bw[r.Intn(len(bw))])
				mut += "+word"
			}
		}
		rq := &request{Kind: "error", Errors: defs, Data: hex.EncodeToString(data)}
		rs := d.run(rq, nil, mut)
		if rs == nil {
			continue
		}
		d.st.Hit("mut:" + mut)
		{
			es := make([]string, len(defs))
			for j, df := range defs {
				tys := make([]string, len(ts[j].Kids))
				for k, kid := range ts[j].Kids {
					tys[k] = kid.Coq()
				}
				es[j] = fmt.Sprintf("(%s, [%s])", cv.CoqBytes([]byte(df.Name)), strings.Join(tys, "; "))
			}
			desc := map[string]interface{}{"kind": "error", "mutation": mut, "impl_class": rs.Cls, "impl_matched": rs.Matched,
				"impl_tree": rs.Tree, "request": rq}
			d.w.Add(fmt.Sprintf("CError [%s] %s %d %s %d %d %d", strings.Join(es, "; "), cv.Compress(data).Coq(), rs.Cls,
				cv.CoqBytes([]byte(rs.Matched)), rs.DigLen, rs.DigA, rs.DigB), desc)
		}
		if rs.Cls == 0 && rs.Matched == "" {
			d.fail("ParseError reported success without an entry", "", rq, nil)
		}
	}

	// directed flip-point cases (directed.go); own PRNG stream
	d.directed(cv.NewRand(1112))
}

// addEvent: Entry.DecodeEventData of the event Ev(members of t, with their indexed flags) through the
// implementation and as a Coq case (C12's entry-level model instantiated with the decoder model).
func (d *driver) addEvent(t *T, anon bool, topics []string, data []byte, mut string) *response {
	rq := &request{Kind: "event", Name: "Ev", Params: paramsJSON(t), Anonymous: anon, Topics: topics, Data: hex.EncodeToString(data)}
	rs := d.run(rq, t, mut)
	if rs == nil {
		return nil
	}
	d.st.Hit("mut:" + mut)
	ins := make([]string, len(t.Kids))
	nIdx := 0
	for k, kid := range t.Kids {
		ins[k] = fmt.Sprintf("(%s, %v)", kid.Coq(), kid.Indexed)
		if kid.Indexed {
			nIdx++
		}
	}
	tps := make([]string, len(topics))
	for k, tp := range topics {
		tps[k] = cv.CoqBytes(unhex(tp))
	}
	desc := map[string]interface{}{"kind": "event", "type": t.Sig(), "anonymous": anon, "topics": topics, "impl_class": rs.Cls,
		"impl_tree": rs.Tree, "impl_err": rs.Err, "request": rq, "mutation": mut}
	d.w.Add(fmt.Sprintf("CEvent %s %v [%s] [%s] %s %d %d %d %d", cv.CoqBytes([]byte("Ev")), anon, strings.Join(ins, "; "),
		strings.Join(tps, "; "), cv.Compress(data).Coq(), rs.Cls, rs.DigLen, rs.DigA, rs.DigB), desc)
	// too few topics for the indexed inputs can never decode
	if rs.Cls == 0 && len(topics) < nIdx {
		d.fail("an event with fewer topics than indexed inputs was decoded", "", rq, nil)
	}
	return rs
}

func wordAsInt(h string) *big.Int {
	z, _ := new(big.Int).SetString(h, 16)
	return z
}

func sha3sig(s string) []byte {
	return selectorFull(s)
}
