// Type trees, an independent transcription of the Solidity enc() function that records where the
// offset / count / byte-length words of an encoding sit, and the Coq printers of the C11 harness.
// Nothing in this file calls pkg/abi's encoder or decoder.
package main

import (
	"fmt"
	"math/big"
	"strings"

	"github.com/hyperledger/firefly-signer/pkg/abi"
	"verifharness/cv"
)

type kind int

const (
	kUint kind = iota
	kInt
	kAddress
	kBool
	kFixed
	kUfixed
	kBytesN
	kBytes
	kString
	kFunction
	kFixedArr
	kDynArr
	kTuple
)

// T is an ABI type; Name / Indexed belong to the outermost node of a tuple member or parameter.
type T struct {
	K       kind
	M, N    int
	Len     int
	Elem    *T
	Kids    []*T
	Name    string
	Indexed bool
}

func (t *T) base() (*T, string) {
	switch t.K {
	case kFixedArr:
		b, s := t.Elem.base()
		return b, s + fmt.Sprintf("[%d]", t.Len)
	case kDynArr:
		b, s := t.Elem.base()
		return b, s + "[]"
	}
	return t, ""
}

func (t *T) elemName() string {
	switch t.K {
	case kUint:
		return fmt.Sprintf("uint%d", t.M)
	case kInt:
		return fmt.Sprintf("int%d", t.M)
	case kAddress:
		return "address"
	case kBool:
		return "bool"
	case kFixed:
		return fmt.Sprintf("fixed%dx%d", t.M, t.N)
	case kUfixed:
		return fmt.Sprintf("ufixed%dx%d", t.M, t.N)
	case kBytesN:
		return fmt.Sprintf("bytes%d", t.M)
	case kBytes:
		return "bytes"
	case kString:
		return "string"
	case kFunction:
		return "function"
	}
	return "?"
}

// Sig is the canonical signature of the type, e.g. (uint256,bytes)[2].
func (t *T) Sig() string {
	switch t.K {
	case kFixedArr:
		return fmt.Sprintf("%s[%d]", t.Elem.Sig(), t.Len)
	case kDynArr:
		return t.Elem.Sig() + "[]"
	case kTuple:
		p := make([]string, len(t.Kids))
		for i, k := range t.Kids {
			p[i] = k.Sig()
		}
		return "(" + strings.Join(p, ",") + ")"
	}
	return t.elemName()
}

func (t *T) Param() *abi.Parameter {
	b, arrays := t.base()
	p := &abi.Parameter{Name: t.Name, Indexed: t.Indexed}
	if b.K == kTuple {
		p.Type = "tuple" + arrays
		for _, k := range b.Kids {
			p.Components = append(p.Components, k.Param())
		}
	} else {
		p.Type = b.elemName() + arrays
	}
	return p
}

// Params: t must be a tuple; its members become the parameter array.
func (t *T) Params() abi.ParameterArray {
	pa := abi.ParameterArray{}
	for _, k := range t.Kids {
		pa = append(pa, k.Param())
	}
	return pa
}

func (t *T) dynamic() bool {
	switch t.K {
	case kBytes, kString, kDynArr:
		return true
	case kFixedArr:
		return t.Len > 0 && t.Elem.dynamic()
	case kTuple:
		for _, k := range t.Kids {
			if k.dynamic() {
				return true
			}
		}
	}
	return false
}

// zeroSize: a value of the type occupies no bytes (T[0], the empty tuple, and what is built of them).
func (t *T) zeroSize() bool {
	switch t.K {
	case kFixedArr:
		return t.Len == 0 || t.Elem.zeroSize()
	case kTuple:
		for _, k := range t.Kids {
			if !k.zeroSize() {
				return false
			}
		}
		return true
	}
	return false
}

// zeroSizeElem: some dynamic array inside has an element type of zero encoded size (the exclusion the
// property's quantifier makes: no amount of data bounds such an array's count).
func (t *T) zeroSizeElem() bool {
	switch t.K {
	case kDynArr:
		return t.Elem.zeroSize() || t.Elem.zeroSizeElem()
	case kFixedArr:
		return t.Elem.zeroSizeElem()
	case kTuple:
		for _, k := range t.Kids {
			if k.zeroSizeElem() {
				return true
			}
		}
	}
	return false
}

func (t *T) hasZeroSize() bool {
	switch t.K {
	case kDynArr:
		return t.Elem.hasZeroSize()
	case kFixedArr:
		return t.Len == 0 || t.Elem.hasZeroSize()
	case kTuple:
		if len(t.Kids) == 0 {
			return true
		}
		for _, k := range t.Kids {
			if k.hasZeroSize() {
				return true
			}
		}
	}
	return false
}

func (t *T) hasFixedPoint() bool {
	switch t.K {
	case kFixed, kUfixed:
		return true
	case kFixedArr, kDynArr:
		return t.Elem.hasFixedPoint()
	case kTuple:
		for _, k := range t.Kids {
			if k.hasFixedPoint() {
				return true
			}
		}
	}
	return false
}

func (t *T) depth() int {
	switch t.K {
	case kFixedArr, kDynArr:
		return 1 + t.Elem.depth()
	case kTuple:
		d := 0
		for _, k := range t.Kids {
			if x := k.depth(); x > d {
				d = x
			}
		}
		return 1 + d
	}
	return 0
}

// dynDepth: nesting depth of data-driven counts (dynamic arrays), which is the exponent of the
// allocation bound.
func (t *T) dynDepth() int {
	switch t.K {
	case kDynArr:
		return 1 + t.Elem.dynDepth()
	case kFixedArr:
		return t.Elem.dynDepth()
	case kTuple:
		d := 0
		for _, k := range t.Kids {
			if x := k.dynDepth(); x > d {
				d = x
			}
		}
		return d
	}
	return 0
}

// Coq prints the type as a term of Abi/Types.v [ty].
func (t *T) Coq() string {
	switch t.K {
	case kUint:
		return fmt.Sprintf("(TUInt %d)", t.M)
	case kInt:
		return fmt.Sprintf("(TInt %d)", t.M)
	case kAddress:
		return "TAddress"
	case kBool:
		return "TBool"
	case kFixed:
		return fmt.Sprintf("(TFixed %d %d)", t.M, t.N)
	case kUfixed:
		return fmt.Sprintf("(TUFixed %d %d)", t.M, t.N)
	case kBytesN:
		return fmt.Sprintf("(TBytesN %d)", t.M)
	case kBytes:
		return "TBytes"
	case kString:
		return "TString"
	case kFunction:
		return "TFunction"
	case kFixedArr:
		return fmt.Sprintf("(TFixedArr %s %d)", t.Elem.Coq(), t.Len)
	case kDynArr:
		return fmt.Sprintf("(TDynArr %s)", t.Elem.Coq())
	default:
		p := make([]string, len(t.Kids))
		for i, k := range t.Kids {
			p[i] = k.Coq()
		}
		return "(TTuple [" + strings.Join(p, "; ") + "])"
	}
}

// ---------- encodings with word roles ----------

type role int

const (
	rOffset role = iota
	rCount
	rByteLen
)

func (r role) String() string { return [...]string{"offset", "count", "bytelen"}[r] }

type mark struct {
	Pos  int
	Role role
	Base int // offset words: the absolute position the offset is relative to
}

type encd struct {
	b     []byte
	marks []mark
}

func word(z *big.Int) []byte {
	m := new(big.Int).Lsh(big.NewInt(1), 256)
	x := new(big.Int).Mod(z, m)
	out := make([]byte, 32)
	x.FillBytes(out)
	return out
}
func wordInt(n int) []byte { return word(big.NewInt(int64(n))) }

func padRight(b []byte) []byte {
	out := append([]byte{}, b...)
	for len(out)%32 != 0 {
		out = append(out, 0)
	}
	return out
}

type item struct {
	dyn bool
	e   encd
}

// headTail is the head/tail layout of the specification; marks of the members are shifted to where
// the member lands, every offset word written gets an rOffset mark.
func headTail(items []item) encd {
	headLen := 0
	for _, it := range items {
		if it.dyn {
			headLen += 32
		} else {
			headLen += len(it.e.b)
		}
	}
	var head, tail []byte
	var marks []mark
	off := headLen
	for _, it := range items {
		if it.dyn {
			marks = append(marks, mark{len(head), rOffset, 0})
			head = append(head, wordInt(off)...)
			for _, m := range it.e.marks {
				marks = append(marks, mark{off + m.Pos, m.Role, off + m.Base})
			}
			tail = append(tail, it.e.b...)
			off += len(it.e.b)
		} else {
			for _, m := range it.e.marks {
				marks = append(marks, mark{len(head) + m.Pos, m.Role, len(head) + m.Base})
			}
			head = append(head, it.e.b...)
		}
	}
	return encd{append(head, tail...), marks}
}

// sizeHint steers how large the random value is: array counts and byte lengths.
type sizeHint struct {
	maxCount int
	maxBytes int
}

func randNum(r *cv.Rand, bits int, signed bool) *big.Int {
	var z *big.Int
	switch r.Intn(6) {
	case 0:
		z = big.NewInt(0)
	case 1:
		z = big.NewInt(1)
	case 2: // maximum
		z = new(big.Int).Lsh(big.NewInt(1), uint(bits))
		if signed {
			z.Rsh(z, 1)
		}
		z.Sub(z, big.NewInt(1))
	case 3:
		if signed {
			z = new(big.Int).Lsh(big.NewInt(1), uint(bits-1))
			z.Neg(z)
		} else {
			z = big.NewInt(int64(r.Intn(256)))
		}
	default:
		z = new(big.Int).SetBytes(r.Bytes(bits / 8))
		if signed {
			h := new(big.Int).Lsh(big.NewInt(1), uint(bits-1))
			if z.Cmp(h) >= 0 {
				z.Sub(z, new(big.Int).Lsh(big.NewInt(1), uint(bits)))
			}
		}
	}
	return z
}

func randByteLen(r *cv.Rand, h sizeHint) int {
	switch r.Intn(6) {
	case 0:
		return 0
	case 1:
		return []int{1, 31, 32, 33, 64}[r.Intn(5)]
	case 2:
		return h.maxBytes
	default:
		return r.Intn(h.maxBytes + 1)
	}
}

// genEnc produces the specification encoding of a random value of type t.
func genEnc(r *cv.Rand, t *T, h sizeHint) encd {
	switch t.K {
	case kUint:
		return encd{b: word(randNum(r, t.M, false))}
	case kInt:
		return encd{b: word(randNum(r, t.M, true))}
	case kAddress:
		return encd{b: word(randNum(r, 160, false))}
	case kBool:
		return encd{b: wordInt(r.Intn(2))}
	case kFixed:
		return encd{b: word(randNum(r, t.M, true))}
	case kUfixed:
		return encd{b: word(randNum(r, t.M, false))}
	case kBytesN:
		return encd{b: padRight(r.Bytes(t.M))}
	case kFunction:
		return encd{b: padRight(r.Bytes(24))}
	case kBytes, kString:
		n := randByteLen(r, h)
		var b []byte
		if t.K == kString {
			b = make([]byte, n)
			for i := range b {
				b[i] = byte(0x20 + r.Intn(0x5f))
			}
			if n > 0 && r.Intn(8) == 0 {
				b[r.Intn(n)] = 0xff // not valid UTF-8
			}
		} else {
			b = r.Bytes(n)
		}
		return encd{append(wordInt(n), padRight(b)...), []mark{{0, rByteLen, 0}}}
	case kFixedArr, kDynArr:
		n := t.Len
		if t.K == kDynArr {
			switch r.Intn(5) {
			case 0:
				n = 0
			case 1:
				n = 1
			case 2:
				n = h.maxCount
			default:
				n = r.Intn(h.maxCount + 1)
			}
		}
		items := make([]item, n)
		sub := h
		if sub.maxCount > 3 {
			sub.maxCount = 3
		}
		for i := range items {
			items[i] = item{t.Elem.dynamic(), genEnc(r, t.Elem, sub)}
		}
		body := headTail(items)
		if t.K == kDynArr {
			ms := []mark{{0, rCount, 0}}
			for _, m := range body.marks {
				ms = append(ms, mark{32 + m.Pos, m.Role, 32 + m.Base})
			}
			return encd{append(wordInt(n), body.b...), ms}
		}
		return body
	default:
		items := make([]item, len(t.Kids))
		for i, k := range t.Kids {
			items[i] = item{k.dynamic(), genEnc(r, k, h)}
		}
		return headTail(items)
	}
}

// ---------- type pool ----------

func el(k kind, m, n int) *T { return &T{K: k, M: m, N: n} }
func dyn(e *T) *T            { return &T{K: kDynArr, Elem: e} }
func fix(e *T, n int) *T     { return &T{K: kFixedArr, Elem: e, Len: n} }
func tup(ks ...*T) *T        { return &T{K: kTuple, Kids: ks} }

func elementaries() []*T {
	return []*T{
		el(kUint, 256, 0), el(kUint, 8, 0), el(kUint, 160, 0), el(kUint, 64, 0),
		el(kInt, 256, 0), el(kInt, 8, 0), el(kInt, 64, 0),
		el(kAddress, 0, 0), el(kBool, 0, 0),
		el(kBytesN, 1, 0), el(kBytesN, 31, 0), el(kBytesN, 32, 0),
		el(kBytes, 0, 0), el(kString, 0, 0), el(kFunction, 0, 0),
		el(kFixed, 128, 18), el(kUfixed, 8, 1), el(kFixed, 256, 80), el(kUfixed, 256, 1),
	}
}

func randElem(r *cv.Rand) *T {
	switch r.Intn(12) {
	case 0:
		return el(kUint, 8*(1+r.Intn(32)), 0)
	case 1:
		return el(kInt, 8*(1+r.Intn(32)), 0)
	case 2:
		return el(kBytesN, 1+r.Intn(32), 0)
	case 3:
		if r.Bool() {
			return el(kFixed, 8*(1+r.Intn(32)), 1+r.Intn(80))
		}
		return el(kUfixed, 8*(1+r.Intn(32)), 1+r.Intn(80))
	default:
		es := elementaries()
		return es[r.Intn(len(es))]
	}
}

// randType draws a type of nesting depth <= d; dynamic-array nesting is capped by dd.
func randType(r *cv.Rand, d, dd int) *T {
	if d == 0 {
		return randElem(r)
	}
	switch r.Intn(7) {
	case 0, 1:
		if dd > 0 {
			return dyn(randType(r, d-1, dd-1))
		}
		return fix(randType(r, d-1, dd), 1+r.Intn(3))
	case 2:
		return fix(randType(r, d-1, dd), 1+r.Intn(3))
	case 3, 4:
		n := 1 + r.Intn(3)
		ks := make([]*T, n)
		for i := range ks {
			ks[i] = randType(r, d-1, dd)
		}
		return tup(ks...)
	default:
		return randElem(r)
	}
}

// systematicShapes: every way of stacking {T[], T[2], (T), (uint8,T)} twice over a static and a
// dynamic leaf, plus the shapes the decoder treats specially.
func systematicShapes() []*T {
	leaves := []*T{el(kUint, 256, 0), el(kBytes, 0, 0), el(kBytesN, 3, 0), el(kString, 0, 0), el(kInt, 16, 0)}
	wrap := []func(*T) *T{
		func(t *T) *T { return dyn(t) },
		func(t *T) *T { return fix(t, 2) },
		func(t *T) *T { return tup(t) },
		func(t *T) *T { return tup(el(kUint, 8, 0), t) },
		func(t *T) *T { return tup(t, el(kAddress, 0, 0)) },
	}
	var out []*T
	for _, l := range leaves {
		out = append(out, l)
		for _, w1 := range wrap {
			out = append(out, w1(l))
			for _, w2 := range wrap {
				out = append(out, w2(w1(l)))
			}
		}
	}
	// three levels of data-driven counts, and a dynamic array below static wrappers
	out = append(out,
		dyn(dyn(dyn(el(kUint, 256, 0)))),
		dyn(fix(dyn(el(kBytesN, 1, 0)), 2)),
		fix(fix(el(kUint, 8, 0), 3), 2),
		tup(fix(tup(el(kUint, 8, 0), el(kBool, 0, 0)), 2), dyn(el(kString, 0, 0))),
		dyn(tup(el(kBytes, 0, 0), dyn(el(kInt, 256, 0)))),
	)
	return out
}

// zeroSizeShapes are outside the property's quantifier (memory clause) but inside the model: the
// guard added by the D11a repair distinguishes them (occupiesHeadBytes).
func zeroSizeShapes() []*T {
	return []*T{
		dyn(fix(el(kUint, 256, 0), 0)),
		dyn(tup()),
		dyn(tup(fix(el(kBytes, 0, 0), 0), tup())),
		dyn(tup(fix(el(kUint, 8, 0), 0), el(kUint, 8, 0))),
		fix(el(kString, 0, 0), 0),
		tup(fix(dyn(el(kUint, 8, 0)), 0), el(kUint, 256, 0)),
		dyn(fix(fix(el(kUint, 8, 0), 2), 0)),
		dyn(fix(fix(el(kUint, 8, 0), 0), 2)),
	}
}

// parseSig reads a canonical type signature (as printed by Sig) back into a type tree; used by -replay.
func parseSig(s string) (*T, error) {
	t, rest, err := parseSigAt(s)
	if err != nil {
		return nil, err
	}
	if rest != "" {
		return nil, fmt.Errorf("trailing %q", rest)
	}
	return t, nil
}

func parseSigAt(s string) (*T, string, error) {
	var base *T
	if strings.HasPrefix(s, "(") {
		s = s[1:]
		base = tup()
		for !strings.HasPrefix(s, ")") {
			k, rest, err := parseSigAt(s)
			if err != nil {
				return nil, "", err
			}
			base.Kids = append(base.Kids, k)
			s = rest
			if strings.HasPrefix(s, ",") {
				s = s[1:]
			} else if !strings.HasPrefix(s, ")") {
				return nil, "", fmt.Errorf("expected , or ) at %q", s)
			}
		}
		s = s[1:]
	} else {
		i := 0
		for i < len(s) && s[i] != '[' && s[i] != ',' && s[i] != ')' {
			i++
		}
		name := s[:i]
		s = s[i:]
		var m, n int
		switch {
		case name == "address":
			base = el(kAddress, 0, 0)
		case name == "bool":
			base = el(kBool, 0, 0)
		case name == "bytes":
			base = el(kBytes, 0, 0)
		case name == "string":
			base = el(kString, 0, 0)
		case name == "function":
			base = el(kFunction, 0, 0)
		case strings.HasPrefix(name, "ufixed"):
			if _, err := fmt.Sscanf(name, "ufixed%dx%d", &m, &n); err != nil {
				return nil, "", err
			}
			base = el(kUfixed, m, n)
		case strings.HasPrefix(name, "fixed"):
			if _, err := fmt.Sscanf(name, "fixed%dx%d", &m, &n); err != nil {
				return nil, "", err
			}
			base = el(kFixed, m, n)
		case strings.HasPrefix(name, "uint"):
			if _, err := fmt.Sscanf(name, "uint%d", &m); err != nil {
				return nil, "", err
			}
			base = el(kUint, m, 0)
		case strings.HasPrefix(name, "int"):
			if _, err := fmt.Sscanf(name, "int%d", &m); err != nil {
				return nil, "", err
			}
			base = el(kInt, m, 0)
		case strings.HasPrefix(name, "bytes"):
			if _, err := fmt.Sscanf(name, "bytes%d", &m); err != nil {
				return nil, "", err
			}
			base = el(kBytesN, m, 0)
		default:
			return nil, "", fmt.Errorf("unknown type %q", name)
		}
	}
	for strings.HasPrefix(s, "[") {
		j := strings.Index(s, "]")
		if j < 0 {
			return nil, "", fmt.Errorf("unclosed [")
		}
		if j == 1 {
			base = dyn(base)
		} else {
			var k int
			if _, err := fmt.Sscanf(s[1:j], "%d", &k); err != nil {
				return nil, "", err
			}
			base = fix(base, k)
		}
		s = s[j+1:]
	}
	return base, s, nil
}
