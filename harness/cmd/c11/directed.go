// Directed cases for C11 (round 3): the exact flip point of every comparison of the decoder, for every
// elementary reader and at every nesting position, instead of leaving them to the sampled word
// replacement; elementary words with dirty padding; degenerate (empty) values as the last thing in
// the data; element types that occupy head bytes in every way occupiesHeadBytes distinguishes, with
// hostile counts; indexed event inputs of every type against every topic width.
package main

import (
	"encoding/hex"
	"math/big"

	"verifharness/cv"
)

// 2^58+1 (count-1)*32 = 2^63 wraps; 2^62; 2^63-32 and 2^63-1: position + value wraps
var int64Band = func() []*big.Int {
	p := func(k uint, d int64) *big.Int {
		return new(big.Int).Add(new(big.Int).Lsh(big.NewInt(1), k), big.NewInt(d))
	}
	return []*big.Int{p(58, 1), p(62, 0), p(63, -32), p(63, -1)}
}()

func allOnes() []byte {
	b := make([]byte, 32)
	for i := range b {
		b[i] = 0xff
	}
	return b
}

func staticElems() []*T {
	return []*T{
		el(kUint, 256, 0), el(kUint, 8, 0), el(kUint, 16, 0), el(kUint, 160, 0),
		el(kInt, 256, 0), el(kInt, 8, 0), el(kInt, 128, 0),
		el(kAddress, 0, 0), el(kBool, 0, 0),
		el(kBytesN, 1, 0), el(kBytesN, 3, 0), el(kBytesN, 31, 0), el(kBytesN, 32, 0),
		el(kFunction, 0, 0),
		el(kFixed, 128, 18), el(kUfixed, 8, 1),
	}
}

// width of what the reader of a static elementary type needs at its position
func needBytes(t *T) int {
	switch t.K {
	case kBytesN:
		return t.M
	case kFunction:
		return 24
	}
	return 32
}

func (d *driver) directed(r *cv.Rand) {
	u256 := el(kUint, 256, 0)
	u8 := el(kUint, 8, 0)
	bytesT := el(kBytes, 0, 0)
	strT := el(kString, 0, 0)

	// ---- elementary readers: dirty padding, exact fit, one byte short / long, at four positions ----
	for _, e := range staticElems() {
		hi := make([]byte, 32) // only the top bit and the lowest bit
		hi[0], hi[31] = 0x80, 0x01
		words := [][]byte{allOnes(), r.Bytes(32), hi}
		need := needBytes(e)
		for wi, w := range words {
			d.addDec(wrap1(e), w, 0, "directed:elem-dirty")
			d.addDec(tup(u8, e), cat(wordInt(1), w), 0, "directed:elem-dirty")
			d.addDec(wrap1(dyn(e)), cat(wordInt(32), wordInt(2), w, w), 0, "directed:elem-dirty")
			d.addDec(wrap1(fix(e, 2)), cat(w, w), 0, "directed:elem-dirty")
			if wi == 0 {
				// the two words at which the sign of a 256-bit value flips
				min := make([]byte, 32)
				min[0] = 0x80
				max := allOnes()
				max[0] = 0x7f
				d.addDec(wrap1(e), min, 0, "directed:elem-dirty")
				d.addDec(wrap1(e), max, 0, "directed:elem-dirty")
				d.addDec(wrap1(dyn(e)), cat(wordInt(32), wordInt(2), min, max), 0, "directed:elem-dirty")
			}
			if wi > 0 {
				continue
			}
			for _, k := range []int{0, need - 1, need, need + 1, 31, 33} {
				if k < 0 {
					continue
				}
				wk := append([]byte{}, w...)
				if k > 32 {
					wk = append(wk, 0x5a)
				} else {
					wk = wk[:k]
				}
				d.addDec(wrap1(e), wk, 0, "directed:elem-fit")
				d.addDec(wrap1(dyn(e)), cat(wordInt(32), wordInt(2), w, wk), 0, "directed:elem-fit")
				if k == need-1 || k == need {
					d.addDec(tup(u8, e), cat(wordInt(1), wk), 0, "directed:elem-fit")
					d.addDec(wrap1(fix(e, 2)), cat(w, wk), 0, "directed:elem-fit")
					d.addDec(wrap1(fix(e, 1)), cat(r.Bytes(4), wk), 4, "directed:elem-fit") // DecodeABIData at an offset
				}
			}
		}
	}
	// ---- bytes / string: payload ending exactly at the end of the data, one byte short / long ----
	for _, e := range []*T{bytesT, strT} {
		for _, l := range []int{0, 1, 31, 32, 33, 64} {
			pay := make([]byte, l+1)
			for i := range pay {
				pay[i] = byte('a' + i%26)
			}
			for _, have := range []int{l - 1, l, l + 1} {
				if have < 0 {
					continue
				}
				d.addDec(wrap1(e), cat(wordInt(32), wordInt(l), pay[:have]), 0, "directed:bytes-fit")
				d.addDec(tup(u256, e), cat(wordInt(7), wordInt(64), wordInt(l), pay[:have]), 0, "directed:bytes-fit")
				d.addDec(wrap1(dyn(e)), cat(wordInt(32), wordInt(1), wordInt(32), wordInt(l), pay[:have]), 0, "directed:bytes-fit")
				d.addDec(wrap1(fix(e, 1)), cat(wordInt(32), wordInt(32), wordInt(l), pay[:have]), 0, "directed:bytes-fit")
				d.addDec(wrap1(tup(e)), cat(wordInt(32), wordInt(32), wordInt(l), pay[:have]), 0, "directed:bytes-fit")
			}
		}
		// the length word itself cut short / missing
		for _, have := range []int{0, 1, 31} {
			d.addDec(wrap1(e), cat(wordInt(32), wordInt(0)[:have]), 0, "directed:bytes-fit")
			d.addDec(wrap1(dyn(e)), cat(wordInt(32), wordInt(1), wordInt(32), wordInt(0)[:have]), 0, "directed:bytes-fit")
		}
	}

	// ---- every marked word of nested shapes x the flip points of the guard that reads it ----
	shapes := []*T{
		dyn(dyn(u256)), dyn(bytesT), dyn(strT), tup(u8, dyn(u256)), tup(dyn(u256), strT),
		fix(dyn(u8), 2), dyn(fix(bytesT, 2)), dyn(tup(u8, bytesT)), tup(tup(strT), dyn(el(kBytesN, 1, 0))),
		dyn(dyn(dyn(u8))), fix(strT, 3), dyn(fix(u256, 2)), tup(u8, tup(bytesT, dyn(el(kInt, 16, 0))), strT),
		dyn(el(kFunction, 0, 0)), dyn(tup(dyn(u8))), tup(dyn(tup(u256, u8)), u8), fix(fix(dyn(u8), 1), 2),
		dyn(el(kBytesN, 31, 0)), tup(fix(tup(dyn(u256)), 2)),
	}
	hints := []sizeHint{{0, 0}, {1, 1}, {2, 33}}
	if d.thorough {
		hints = append(hints, sizeHint{3, 64}, sizeHint{5, 100})
	}
	for si, sh := range shapes {
		t := wrap1(sh)
		if sh.K == kTuple && si%2 == 1 {
			t = sh
		}
		for hi, h := range hints {
			e := genEnc(r, t, h)
			n := len(e.b)
			d.addDec(t, e.b, 0, "directed:valid")
			for _, m := range e.marks {
				rem := n - (m.Pos + 32)
				var vals []int
				switch m.Role {
				case rCount:
					vals = []int{rem/32 - 1, rem / 32, rem/32 + 1, rem/32 + 2, (rem + 31) / 32, rem, 0}
				case rByteLen:
					vals = []int{rem - 33, rem - 32, rem - 31, rem - 1, rem, rem + 1, 0}
				case rOffset:
					if hi == 1 && !d.thorough {
						continue
					}
					// where the offset may point: the last word, one byte before / into it, the end, itself
					for _, target := range []int{n - 64, n - 33, n - 32, n - 31, n, m.Pos, m.Base} {
						vals = append(vals, target-m.Base)
					}
				}
				for _, v := range vals {
					if v >= 0 {
						d.addDec(t, replaceWord(e.b, m.Pos, big.NewInt(int64(v))), 0, "directed:"+m.Role.String()+"-flip")
					}
				}
				// words a 64-bit int still holds but whose use overflows it (count*32, position+length,
				// head start+offset): refused today because they have more than 32 bits
				if hi == 2 {
					for _, v := range int64Band {
						d.addDec(t, replaceWord(e.b, m.Pos, v), 0, "directed:int64-band")
					}
				}
			}
			// the data ending exactly where the last value ends, and around it
			for _, c := range []int{n - 1, n - 31, n - 32, n - 33} {
				if c >= 0 {
					d.addDec(t, e.b[:c], 0, "directed:end-fit")
				}
			}
		}
	}

	// ---- element types that occupy head bytes, in each way occupiesHeadBytes can find that out, with
	// counts no data of this size can hold (they are inside the memory clause) ----
	occ := []*T{
		fix(u256, 1), fix(fix(u256, 1), 1), fix(u256, 2), tup(u256), tup(tup(u256)),
		tup(tup(), u8), tup(fix(u256, 0), u8), tup(fix(u256, 0), tup(), fix(tup(), 3), u8), tup(u8, tup()),
		fix(tup(fix(u8, 0), u8), 1), fix(bytesT, 1), tup(bytesT), tup(tup(), strT), fix(tup(tup(), dyn(u8)), 1),
	}
	for _, e := range occ {
		t := wrap1(dyn(e))
		for _, c := range []string{"ffffffff", "7fffffff", "ffffff", "10000", "3", "2", "1"} {
			d.addDec(t, cat(wordInt(32), wordHex(c)), 0, "directed:occupies-count")
			d.addDec(t, cat(wordInt(32), wordHex(c), wordyRandom(r, 64)), 0, "directed:occupies-count")
		}
		// the same element types in a fixed array whose declared length the data cannot hold
		for _, k := range []int{16777215, 65536, 3} {
			d.addDec(wrap1(fix(e, k)), wordyRandom(r, 64), 0, "directed:occupies-declared")
		}
	}

	// ---- a declared length the data cannot hold, decoded at a position beyond the end of the data (the
	// remaining length the guard compares with is negative there) ----
	for _, k := range []int{4294967295, 16777215} {
		d.addDec(wrap1(fix(u256, k)), r.Bytes(8), 1000, "directed:declared-beyond-end")
		d.addDec(wrap1(fix(u256, k)), r.Bytes(40), 41, "directed:declared-beyond-end")
		d.addDec(wrap1(fix(tup(u8, el(kBytesN, 2, 0)), k)), nil, 1, "directed:declared-beyond-end")
		for _, off := range []int{33, 64, 1 << 31} {
			d.addDec(wrap1(fix(strT, k)), wordInt(off), 0, "directed:declared-beyond-end")
			d.addDec(wrap1(fix(dyn(u8), k)), cat(wordInt(off), r.Bytes(7)), 0, "directed:declared-beyond-end")
		}
	}

	// ---- events: one indexed input of every type against every topic width; data input alongside ----
	var evTypes []*T
	evTypes = append(evTypes, staticElems()...)
	evTypes = append(evTypes, bytesT, strT, dyn(u256), fix(u8, 2), tup(u8, strT), fix(strT, 2), tup(u256))
	widths := []int{0, 1, 20, 31, 32, 33, 64}
	dataEnc := cat(wordInt(77))
	for ti, e := range evTypes {
		ix := *e
		ix.Name, ix.Indexed = "a0", true
		dt := *u256
		dt.Name = "a1"
		t := tup(&ix, &dt)
		if ti%3 == 1 {
			t = tup(&dt, &ix)
		}
		for wi, w := range widths {
			tb := r.Bytes(w)
			if w >= 1 && wi%2 == 0 {
				for i := range tb {
					tb[i] = 0xff
				}
			}
			data := dataEnc
			if (ti+wi)%7 == 0 {
				data = dataEnc[:31]
			}
			d.addEvent(t, true, []string{hex.EncodeToString(tb)}, data, "directed:event-topic-width")
		}
		if ti%4 == 0 {
			// not anonymous: right signature topic, then the indexed one; one topic missing; one extra
			h := hex.EncodeToString(sha3sig("Ev" + t.Sig()))
			v := hex.EncodeToString(allOnes())
			d.addEvent(t, false, []string{h, v}, dataEnc, "directed:event-signed")
			d.addEvent(t, false, []string{h}, dataEnc, "directed:event-signed")
			d.addEvent(t, false, []string{h, v, v}, dataEnc, "directed:event-signed")
			d.addEvent(t, false, []string{v, h}, dataEnc, "directed:event-signed")
		}
	}
	// four indexed inputs (an anonymous event may carry four topics), all topics present / one short
	{
		ks := make([]*T, 5)
		for i, e := range []*T{el(kAddress, 0, 0), el(kInt, 8, 0), strT, el(kBytesN, 32, 0), bytesT} {
			cp := *e
			cp.Name = "p" + string(rune('0'+i))
			cp.Indexed = i < 4
			ks[i] = &cp
		}
		t := tup(ks...)
		enc := genEnc(r, tup(bytesT), sizeHint{maxBytes: 33}).b
		w := func() string { return hex.EncodeToString(r.Bytes(32)) }
		for nt := 0; nt <= 5; nt++ {
			ts := make([]string, nt)
			for i := range ts {
				ts[i] = w()
			}
			d.addEvent(t, true, ts, enc, "directed:event-four-indexed")
			d.addEvent(t, true, ts, enc[:len(enc)-1-r.Intn(32)], "directed:event-four-indexed")
		}
	}
}
