// Harness for C11 (ABI decoding of arbitrary bytes is total, stable and bounded by the data given).
//
// The parent process generates the cases (valid encodings with every offset / count / length word
// replaced by boundary values, truncations, extensions, random bytes; return data, call data, event
// topics + data, revert data) and hands each one to a worker child process that runs pkg/abi under
// recover(), an address-space limit and a watchdog, and measures the bytes allocated by the call.
// A worker that dies (out of memory is not recoverable in Go) or hangs names its input; the parent
// restarts it and carries on.  Return-data and call-data cases are written as Coq cases that
// Abi/RunC11.v evaluates against the model (class, decoded tree digest, allocation against the
// model's cost counter); the property oracles that need only the implementation (no panic, JSON
// serialisable, re-encode/re-decode stable, allocation below the bound B(type, |data|) of theorem
// C11_alloc_bound) are evaluated here.
package main

import (
	"bufio"
	"bytes"
	"crypto/sha256"
	"encoding/hex"
	"encoding/json"
	"flag"
	"fmt"
	"io"
	"math/big"
	"os"
	"os/exec"
	"path/filepath"
	"regexp"
	"runtime"
	"runtime/debug"
	"strings"
	"sync"
	"sync/atomic"
	"syscall"
	"time"

	"github.com/hyperledger/firefly-signer/pkg/abi"
	"github.com/hyperledger/firefly-signer/pkg/ethtypes"
	"golang.org/x/crypto/sha3"
	"verifharness/cv"
)

// ---------- worker protocol ----------

type errDef struct {
	Name   string          `json:"name"`
	Params json.RawMessage `json:"params"`
}

type request struct {
	Kind      string          `json:"kind"` // dec | call | event | error
	Params    json.RawMessage `json:"params,omitempty"`
	Off       int             `json:"off,omitempty"`
	Data      string          `json:"data"`
	Name      string          `json:"name,omitempty"`
	Anonymous bool            `json:"anonymous,omitempty"`
	Topics    []string        `json:"topics,omitempty"`
	Errors    []errDef        `json:"errors,omitempty"`
	// kind "conc": the requests to run first one after the other and then from several goroutines on
	// the same parsed objects; kind "flush": re-verify every retained tree
	Batch []*request `json:"batch,omitempty"`
	// Light: decode, count the nodes and measure only - none of the per-tree oracles (used for the
	// one large witness of the known finding C11/alias-bomb-superlinear, whose tree has 10^6 nodes)
	Light bool `json:"light,omitempty"`
}

func countNodes(c *abi.ComponentValue) int {
	if c == nil {
		return 0
	}
	n := 1
	for _, ch := range c.Children {
		n += countNodes(ch)
	}
	return n
}

type response struct {
	Cls       int    `json:"cls"` // 0 Ok, 1 Err, 2 Panic
	Panic     string `json:"panic,omitempty"`
	Err       string `json:"err,omitempty"`
	DigLen    uint64 `json:"dl"`
	DigA      uint64 `json:"da"`
	DigB      uint64 `json:"db"`
	Nodes     int    `json:"nodes"`
	Alloc     uint64 `json:"alloc"`
	Stable    int    `json:"stable"` // 0 not re-encodable, 1 stable, 2 unstable, 3 panic on the way
	StableWhy string `json:"stable_why,omitempty"`
	JSONBad   string `json:"json_bad,omitempty"` // non-empty: some serializer mode failed / panicked
	Tree      string `json:"tree,omitempty"`
	Matched   string `json:"matched,omitempty"` // ParseError: name of the matched entry
	ErrString string `json:"err_string,omitempty"`
	// state / aliasing oracles (round 3)
	InputMod    string          `json:"input_mod,omitempty"`    // the call changed its input bytes
	RepeatBad   string          `json:"repeat_bad,omitempty"`   // the same call on the same objects a second time answered differently
	AliasBad    string          `json:"alias_bad,omitempty"`    // the returned tree changed when the caller's data buffer was overwritten
	RetainedBad string          `json:"retained_bad,omitempty"` // a tree returned by an earlier call changed while later calls ran
	RetainedReq json.RawMessage `json:"retained_req,omitempty"` // ... the request that had returned it
	ConcBad     string          `json:"conc_bad,omitempty"`     // concurrent calls on shared objects answered differently from sequential ones
	ConcIdx     int             `json:"conc_idx,omitempty"`
	Reused      bool            `json:"reused,omitempty"`
	Slack       bool            `json:"slack,omitempty"` // the input was handed over with spare capacity behind it
}

// ---------- canonical serialisation of a value tree (mirrors RunC11.v ser_cval) ----------

func be(n *big.Int, k int) []byte {
	out := make([]byte, k)
	b := new(big.Int).Abs(n).Bytes()
	if len(b) > k {
		b = b[len(b)-k:]
	}
	copy(out[k-len(b):], b)
	return out
}
func sgn(n *big.Int) byte {
	if n.Sign() < 0 {
		return 1
	}
	return 0
}

// floatParts gives f = mant * 2^exp with mant odd (or 0,0).
func floatParts(f *big.Float) (*big.Int, int) {
	if f.Sign() == 0 || f.IsInf() {
		return big.NewInt(0), 0
	}
	m := new(big.Float)
	e := f.MantExp(m)
	p := int(f.MinPrec())
	m.SetMantExp(m, p)
	i, _ := m.Int(nil)
	return i, e - p
}

func serTree(c *abi.ComponentValue, out *[]byte, nodes *int, desc *strings.Builder) {
	*nodes++
	if c == nil {
		*out = append(*out, 'X')
		return
	}
	short := desc != nil && desc.Len() < 600
	switch v := c.Value.(type) {
	case *big.Int:
		*out = append(*out, 'N', sgn(v))
		*out = append(*out, be(v, 32)...)
		if short {
			desc.WriteString(v.String())
		}
	case []byte:
		*out = append(*out, 'B')
		*out = append(*out, be(big.NewInt(int64(len(v))), 4)...)
		*out = append(*out, v...)
		if short {
			desc.WriteString("0x" + cv.Compress(v).Describe())
		}
	case string:
		*out = append(*out, 'S')
		*out = append(*out, be(big.NewInt(int64(len(v))), 4)...)
		*out = append(*out, v...)
		if short {
			desc.WriteString(fmt.Sprintf("%q", cv.Compress([]byte(v)).Describe()))
		}
	case *big.Float:
		m, e := floatParts(v)
		*out = append(*out, 'F', sgn(m))
		*out = append(*out, be(m, 40)...)
		eb := big.NewInt(int64(e))
		*out = append(*out, sgn(eb))
		*out = append(*out, be(eb, 4)...)
		if short {
			desc.WriteString(v.Text('g', 30))
		}
	default:
		*out = append(*out, 'L')
		*out = append(*out, be(big.NewInt(int64(len(c.Children))), 4)...)
		if short {
			desc.WriteString("[")
		}
		for i, k := range c.Children {
			if short && i > 0 {
				desc.WriteString(",")
			}
			serTree(k, out, nodes, desc)
		}
		if short {
			desc.WriteString("]")
		}
	}
}

// ---------- the worker: runs the implementation ----------

func guard(f func()) (p string) {
	defer func() {
		if r := recover(); r != nil {
			p = fmt.Sprint(r)
			if p == "" {
				p = "panic"
			}
		}
	}()
	f()
	return ""
}

func hexs(ss []string) []ethtypes.HexBytes0xPrefix {
	out := make([]ethtypes.HexBytes0xPrefix, len(ss))
	for i, s := range ss {
		b, _ := hex.DecodeString(s)
		if b == nil {
			b = []byte{}
		}
		out[i] = b
	}
	return out
}

// ---------- worker state kept across requests (round 3) ----------
//
// The parsed objects (ParameterArray with its cached type trees, Entry, ABI) are kept and used again
// by every later request that names the same definition, the way an application holds one ABI and
// decodes many payloads with it; one request in eight builds fresh objects so that the first-use
// path keeps being exercised.  Trees returned by earlier calls are retained and serialised again
// after other calls have run.

type bound struct {
	kind   string
	params abi.ParameterArray
	entry  *abi.Entry
	abi    abi.ABI
	reused bool
}

type retainedTree struct {
	tree *abi.ComponentValue
	sum  [32]byte
	rq   json.RawMessage
}

type wstate struct {
	objs map[string]*bound
	ring []retainedTree
	n    int
}

const retainN = 48

var ws = &wstate{objs: map[string]*bound{}}

func (w *wstate) prepare(rq *request, fresh bool) (*bound, error) {
	var key string
	if rq.Kind == "error" {
		eb, _ := json.Marshal(rq.Errors)
		key = "error|" + string(eb)
	} else {
		key = fmt.Sprintf("%s|%s|%v|%s", rq.Kind, rq.Name, rq.Anonymous, string(rq.Params))
	}
	if !fresh {
		if b, ok := w.objs[key]; ok {
			cp := *b
			cp.reused = true
			return &cp, nil
		}
	}
	b := &bound{kind: rq.Kind}
	if len(rq.Params) > 0 {
		if err := json.Unmarshal(rq.Params, &b.params); err != nil {
			return nil, err
		}
	}
	switch rq.Kind {
	case "dec":
	case "call":
		b.entry = &abi.Entry{Type: abi.Function, Name: rq.Name, Inputs: b.params}
	case "event":
		b.entry = &abi.Entry{Type: abi.Event, Name: rq.Name, Inputs: b.params, Anonymous: rq.Anonymous}
	case "error":
		// spare capacity on purpose: an append to the caller's slice inside ParseError would land in it
		b.abi = make(abi.ABI, 0, len(rq.Errors)+4)
		for _, d := range rq.Errors {
			var pa abi.ParameterArray
			json.Unmarshal(d.Params, &pa)
			b.abi = append(b.abi, &abi.Entry{Type: abi.Error, Name: d.Name, Inputs: pa})
		}
	default:
		return nil, fmt.Errorf("bad kind")
	}
	if !fresh {
		if len(w.objs) > 4096 {
			w.objs = map[string]*bound{}
		}
		w.objs[key] = b
	}
	return b, nil
}

// run makes the call of the request on the prepared objects (no recover here).
func (b *bound) run(rq *request, data []byte, topics []ethtypes.HexBytes0xPrefix) (tree *abi.ComponentValue, matched *abi.Entry, errString string, err error) {
	switch b.kind {
	case "dec":
		tree, err = b.params.DecodeABIData(data, rq.Off)
	case "call":
		tree, err = b.entry.DecodeCallData(data)
	case "event":
		tree, err = b.entry.DecodeEventData(topics, data)
	case "error":
		var ok bool
		matched, tree, ok = b.abi.ParseError(data)
		if !ok {
			err = fmt.Errorf("no error definition matched")
		}
		s, ok2 := b.abi.ErrorString(data)
		if ok != ok2 && !(ok && s == "") {
			panic(fmt.Sprintf("ErrorString ok=%v but ParseError ok=%v", ok2, ok))
		}
		errString = s
	}
	return
}

func serSum(tree *abi.ComponentValue) (sum [32]byte, p string) {
	p = guard(func() {
		var ser []byte
		n := 0
		serTree(tree, &ser, &n, nil)
		sum = sha256.Sum256(ser)
	})
	return
}

// outcome of one call reduced to what must not depend on history: class and tree
func (b *bound) outcome(rq *request, data []byte, topics []ethtypes.HexBytes0xPrefix) string {
	var tree *abi.ComponentValue
	var matched *abi.Entry
	var err error
	if p := guard(func() { tree, matched, _, err = b.run(rq, data, topics) }); p != "" {
		return "panic: " + p
	}
	if err != nil {
		return "error"
	}
	if tree == nil {
		return "nil tree"
	}
	sum, p := serSum(tree)
	if p != "" {
		return "panic while reading the tree: " + p
	}
	m := ""
	if matched != nil {
		m = matched.Name
	}
	return fmt.Sprintf("ok %s %x", m, sum[:12])
}

func withSlack(b []byte) []byte {
	arena := make([]byte, len(b)+384)
	copy(arena, b)
	for i := len(b); i < len(arena); i++ {
		arena[i] = byte(0xe0 + i%29)
	}
	return arena[:len(b)]
}

func copyTopics(ts []ethtypes.HexBytes0xPrefix) []ethtypes.HexBytes0xPrefix {
	out := make([]ethtypes.HexBytes0xPrefix, len(ts))
	for i, t := range ts {
		out[i] = append(ethtypes.HexBytes0xPrefix{}, t...)
	}
	return out
}

func briefRequest(rq *request) json.RawMessage {
	cp := *rq
	if len(cp.Data) > 8192 {
		cp.Data = cp.Data[:8192] + "..."
	}
	b, _ := json.Marshal(&cp)
	return b
}

// checkRetained serialises retained trees again; all = every one, otherwise only those that fall out
// of the ring.
func (w *wstate) checkRetained(rs *response, all bool) {
	for len(w.ring) > 0 && (all || len(w.ring) > retainN) {
		it := w.ring[0]
		w.ring = w.ring[1:]
		sum, p := serSum(it.tree)
		if rs.RetainedBad != "" {
			continue
		}
		if p != "" {
			rs.RetainedBad, rs.RetainedReq = "reading it again panicked: "+p, it.rq
		} else if sum != it.sum {
			var d strings.Builder
			var ser []byte
			n := 0
			serTree(it.tree, &ser, &n, &d)
			rs.RetainedBad, rs.RetainedReq = "it now reads "+d.String(), it.rq
		}
	}
}

func handle(rq *request) *response {
	rs := &response{}
	ws.n++
	switch rq.Kind {
	case "flush":
		ws.checkRetained(rs, true)
		return rs
	case "conc":
		return handleConc(rq)
	}
	data, _ := hex.DecodeString(rq.Data)
	if data == nil {
		data = []byte{}
	}
	topics := hexs(rq.Topics)
	// every second request hands the bytes over as the front part of a larger buffer (a read buffer
	// with spare capacity, stale bytes behind the data): re-slicing past len(data) does not panic
	// there, it reads what is not part of the input
	if len(data) == 0 && ws.n%4 == 1 {
		data = nil // "no data" handed over as a nil slice now and then
	}
	if len(topics) == 0 && ws.n%4 == 3 {
		topics = nil
	}
	if ws.n%2 == 0 {
		data = withSlack(data)
		for i := range topics {
			topics[i] = withSlack(topics[i])
		}
		rs.Slack = true
	}
	b, perr := ws.prepare(rq, ws.n%8 == 7)
	if perr != nil {
		rs.Cls, rs.Err = 1, "harness: bad params: "+perr.Error()
		return rs
	}
	rs.Reused = b.reused
	params := b.params
	origData := append([]byte{}, data...)
	origTopics := copyTopics(topics)
	var tree *abi.ComponentValue
	var err error
	var matched *abi.Entry
	call := func() { tree, matched, rs.ErrString, err = b.run(rq, data, topics) }
	var m0, m1 runtime.MemStats
	runtime.ReadMemStats(&m0)
	p := guard(call)
	runtime.ReadMemStats(&m1)
	rs.Alloc = m1.TotalAlloc - m0.TotalAlloc
	// oracle: decoding reads its input, it does not write to it
	if !bytes.Equal(data, origData) {
		rs.InputMod = "the data passed in was modified by the call"
	}
	for i := range topics {
		if !bytes.Equal(topics[i], origTopics[i]) {
			rs.InputMod = fmt.Sprintf("topic %d passed in was modified by the call", i)
		}
	}
	switch {
	case p != "":
		rs.Cls, rs.Panic = 2, p
		return rs
	case err != nil:
		rs.Cls, rs.Err = 1, err.Error()
		if len(rs.Err) > 200 {
			rs.Err = rs.Err[:200]
		}
		// the same call once more on the same objects: still an error
		if o := b.outcome(rq, append([]byte{}, origData...), copyTopics(origTopics)); o != "error" {
			rs.RepeatBad = "first call: error, second call: " + o
		}
		ws.checkRetained(rs, false)
		return rs
	case tree == nil:
		rs.Cls, rs.Panic = 2, "nil tree returned without an error"
		return rs
	}
	if matched != nil {
		rs.Matched = matched.Name
	}
	if rq.Light {
		rs.Nodes = countNodes(tree)
		return rs
	}
	var ser []byte
	var desc strings.Builder
	serTree(tree, &ser, &rs.Nodes, &desc)
	rs.Tree = desc.String()
	rs.DigLen, rs.DigA, rs.DigB = cv.Cks(ser)
	sum0 := sha256.Sum256(ser)

	// oracle: a returned tree can always be serialised to JSON (every formatting mode; the built-in
	// value serializers in four combinations, with and without indentation / custom member names)
	for mode := abi.FormatAsObjects; mode <= abi.FormatAsSelfDescribingArrays; mode++ {
		for alt := 0; alt < 4; alt++ {
			s := abi.NewSerializer().SetFormattingMode(mode)
			switch alt {
			case 1:
				s = s.SetIntSerializer(abi.HexIntSerializer0xPrefix).SetByteSerializer(abi.Base64ByteSerializer).
					SetAddressSerializer(abi.ChecksumAddrSerializer).SetFloatSerializer(abi.NumberIfFitsOrBase10StringFloatSerializer)
			case 2:
				s = s.SetIntSerializer(abi.JSONNumberIntSerializer).SetByteSerializer(abi.HexByteSerializer0xPrefix).
					SetAddressSerializer(abi.HexAddrSerializerPlain).SetFloatSerializer(abi.Base10StringFloatSerializer).
					SetPretty(true).SetDefaultNameGenerator(func(i int) string { return fmt.Sprintf("m%d", i) })
			case 3:
				s = s.SetIntSerializer(abi.NumberIfFitsOrBase10StringIntSerializer).SetAddressSerializer(abi.HexAddrSerializer0xPrefix)
			}
			var jb []byte
			var jerr error
			if alt == 0 {
				if p := guard(func() { _, jerr = s.SerializeInterface(tree) }); p != "" {
					rs.JSONBad = fmt.Sprintf("SerializeInterface mode %d panicked: %s", mode, p)
				} else if jerr != nil {
					rs.JSONBad = fmt.Sprintf("SerializeInterface mode %d: %s", mode, jerr)
				}
			}
			if p := guard(func() { jb, jerr = s.SerializeJSON(tree) }); p != "" {
				rs.JSONBad = fmt.Sprintf("mode %d/%d panicked: %s", mode, alt, p)
			} else if jerr != nil {
				rs.JSONBad = fmt.Sprintf("mode %d/%d: %s", mode, alt, jerr)
			} else if !json.Valid(jb) {
				rs.JSONBad = fmt.Sprintf("mode %d/%d: output is not valid JSON", mode, alt)
			}
		}
	}

	// ... and a formatting mode that does not exist is an error, not a panic
	if p := guard(func() {
		_, _ = abi.NewSerializer().SetFormattingMode(abi.FormatAsSelfDescribingArrays + 1).SerializeJSON(tree)
	}); p != "" {
		rs.JSONBad = "unknown formatting mode panicked: " + p
	}

	// oracle: if the tree re-encodes, decoding that encoding yields the same tree.  (Event trees mix
	// topic-derived and data-derived children and have no single encoding: not applicable.)
	if rq.Kind != "event" {
		var enc []byte
		var eerr error
		var tree2 *abi.ComponentValue
		var derr error
		if p := guard(func() { enc, eerr = tree.EncodeABIData() }); p != "" {
			rs.Stable, rs.StableWhy = 3, "EncodeABIData panicked: "+p
		} else if eerr == nil {
			root := params
			if matched != nil {
				root = matched.Inputs
			}
			if p := guard(func() { tree2, derr = root.DecodeABIData(enc, 0) }); p != "" {
				rs.Stable, rs.StableWhy = 3, "decoding the re-encoding panicked: "+p
			} else if derr != nil {
				rs.Stable, rs.StableWhy = 2, "re-encoding "+hex.EncodeToString(clip(enc, 256))+" does not decode: "+derr.Error()
			} else {
				var ser2 []byte
				n2 := 0
				serTree(tree2, &ser2, &n2, nil)
				if string(ser2) == string(ser) {
					rs.Stable = 1
				} else {
					var d2 strings.Builder
					n2 = 0
					ser2 = nil
					serTree(tree2, &ser2, &n2, &d2)
					rs.Stable, rs.StableWhy = 2, "re-encoding "+hex.EncodeToString(clip(enc, 256))+" decodes to "+d2.String()
				}
			}
		}
	}

	// oracle: the same call once more on the same objects gives the same tree (the first call, the
	// serialisers and the re-encoding above have left the parsed definition as it was)
	want := fmt.Sprintf("ok %s %x", rs.Matched, sum0[:12])
	if o := b.outcome(rq, append([]byte{}, origData...), copyTopics(origTopics)); o != want {
		rs.RepeatBad = "first call: " + want + ", second call: " + o
	}

	// oracle: the tree owns its values - overwriting the caller's data buffer afterwards (a reused
	// read buffer) does not change it.  Topics are left alone: a hashed topic is handed back as is.
	for i := range data {
		data[i] ^= 0xa5
	}
	if sum, p := serSum(tree); p != "" {
		rs.AliasBad = "reading the tree after the buffer was overwritten panicked: " + p
	} else if sum != sum0 && len(data) > 0 {
		var d2 strings.Builder
		var ser2 []byte
		n2 := 0
		serTree(tree, &ser2, &n2, &d2)
		rs.AliasBad = "after the data buffer was overwritten the tree reads " + d2.String()
	}

	// retained results: serialise again what earlier calls returned
	ws.checkRetained(rs, false)
	if rs.Nodes < 20000 && rs.AliasBad == "" {
		ws.ring = append(ws.ring, retainedTree{tree: tree, sum: sum0, rq: briefRequest(rq)})
	}
	return rs
}

// handleConc: the batch one after the other (this also parses every definition), then from 8
// goroutines, in different orders, all sharing the parsed objects, for at least 3 rounds and until
// the time budget is used.
func handleConc(rq *request) *response {
	rs := &response{}
	n := len(rq.Batch)
	bs := make([]*bound, n)
	datas := make([][]byte, n)
	topics := make([][]ethtypes.HexBytes0xPrefix, n)
	want := make([]string, n)
	for i, sub := range rq.Batch {
		b, err := ws.prepare(sub, false)
		if err != nil {
			rs.Cls, rs.Err = 1, "harness: bad params in batch"
			return rs
		}
		bs[i] = b
		datas[i], _ = hex.DecodeString(sub.Data)
		if datas[i] == nil {
			datas[i] = []byte{}
		}
		topics[i] = hexs(sub.Topics)
		want[i] = b.outcome(sub, append([]byte{}, datas[i]...), copyTopics(topics[i]))
	}
	var mu sync.Mutex
	var wg sync.WaitGroup
	const G = 8
	start := time.Now()
	budget := time.Duration(rq.Off) * time.Millisecond // the driver passes the time to spend in Off
	var rounds int64
	for g := 0; g < G; g++ {
		wg.Add(1)
		go func(g int) {
			defer wg.Done()
			for round := 0; round < 3 || time.Since(start) < budget; round++ {
				for k := 0; k < n; k++ {
					i := (k*(2*g+1) + g*n/G + round) % n
					atomic.AddInt64(&rounds, 1)
					got := bs[i].outcome(rq.Batch[i], append([]byte{}, datas[i]...), copyTopics(topics[i]))
					if got != want[i] {
						mu.Lock()
						if rs.ConcBad == "" {
							rs.ConcBad = "alone: " + want[i] + "; with other calls running: " + got
							rs.ConcIdx = i
						}
						mu.Unlock()
					}
				}
			}
		}(g)
	}
	wg.Wait()
	rs.Nodes = int(atomic.LoadInt64(&rounds))
	return rs
}

func clip(b []byte, n int) []byte {
	if len(b) > n {
		return b[:n]
	}
	return b
}

const workerMemLimit = 3 << 30

func workerMain() {
	// address-space cap: a request for tens of GiB fails ("fatal error: out of memory", exit 2)
	// instead of taking the machine down; the parent notices the death.
	lim := syscall.Rlimit{Cur: workerMemLimit, Max: workerMemLimit}
	_ = syscall.Setrlimit(syscall.RLIMIT_AS, &lim)
	debug.SetMemoryLimit(2 << 30)
	in := bufio.NewReaderSize(os.Stdin, 1<<20)
	out := bufio.NewWriter(os.Stdout)
	for {
		line, err := in.ReadBytes('\n')
		if len(line) > 0 {
			var rq request
			if e := json.Unmarshal(line, &rq); e != nil {
				fmt.Fprintf(out, "{\"cls\":1,\"err\":\"harness: bad request\"}\n")
			} else {
				rs := handle(&rq)
				b, _ := json.Marshal(rs)
				out.Write(b)
				out.WriteByte('\n')
			}
			out.Flush()
		}
		if err != nil {
			return
		}
	}
}

type worker struct {
	cmd  *exec.Cmd
	in   io.WriteCloser
	out  *bufio.Reader
	errb *strings.Builder
}

func startWorker() *worker {
	cmd := exec.Command(os.Args[0], "-worker")
	in, _ := cmd.StdinPipe()
	outp, _ := cmd.StdoutPipe()
	eb := &strings.Builder{}
	cmd.Stderr = &tailWriter{b: eb}
	if err := cmd.Start(); err != nil {
		panic(err)
	}
	return &worker{cmd: cmd, in: in, out: bufio.NewReaderSize(outp, 1<<20), errb: eb}
}

type tailWriter struct{ b *strings.Builder }

func (t *tailWriter) Write(p []byte) (int, error) {
	if t.b.Len() < 4000 {
		t.b.Write(p)
	}
	return len(p), nil
}

// do sends one request; died != "" when the worker process ended or hung instead of answering.
func (w *worker) do(rq *request, timeout time.Duration) (rs *response, died string) {
	b, _ := json.Marshal(rq)
	b = append(b, '\n')
	type res struct {
		line []byte
		err  error
	}
	ch := make(chan res, 1)
	go func() {
		if _, err := w.in.Write(b); err != nil {
			ch <- res{nil, err}
			return
		}
		line, err := w.out.ReadBytes('\n')
		ch <- res{line, err}
	}()
	select {
	case r := <-ch:
		if r.err != nil || len(r.line) == 0 {
			w.cmd.Process.Kill()
			werr := w.cmd.Wait()
			tail := w.errb.String()
			if len(tail) > 600 {
				tail = tail[:600]
			}
			return nil, fmt.Sprintf("worker process ended (%v): %s", werr, tail)
		}
		rs = &response{}
		if err := json.Unmarshal(r.line, rs); err != nil {
			return nil, "worker answered garbage: " + err.Error()
		}
		return rs, ""
	case <-time.After(timeout):
		w.cmd.Process.Kill()
		w.cmd.Wait()
		return nil, fmt.Sprintf("no answer within %s (hang or runaway loop)", timeout)
	}
}

func (w *worker) stop() {
	w.in.Close()
	done := make(chan struct{})
	go func() { w.cmd.Wait(); close(done) }()
	select {
	case <-done:
	case <-time.After(3 * time.Second):
		w.cmd.Process.Kill()
	}
}

// ---------- the allocation bound of theorem C11_alloc_bound, evaluated on the Go side ----------

var satCap = new(big.Int).Lsh(big.NewInt(1), 62)

// boundCells is B(t, n): cells + bytes + nodes the decoder may request for |data| = n.
func boundCells(t *T, n int) *big.Int {
	var b *big.Int
	switch t.K {
	case kBytes, kString:
		b = big.NewInt(int64(1 + n))
	case kBytesN, kFunction:
		b = big.NewInt(int64(1 + 32))
	case kFixedArr:
		// a declared length beyond what the data can hold is refused before anything is allocated
		k := int64(t.Len)
		if c := int64(n/32 + 1); !t.Elem.zeroSize() && c < k {
			k = c
		}
		b = new(big.Int).Mul(big.NewInt(k), boundCells(t.Elem, n))
		b.Add(b, big.NewInt(1+2*k))
	case kDynArr:
		c := int64(n/32 + 1)
		b = new(big.Int).Mul(big.NewInt(c), boundCells(t.Elem, n))
		b.Add(b, big.NewInt(1+c))
	case kTuple:
		b = big.NewInt(int64(1 + len(t.Kids)))
		for _, k := range t.Kids {
			b.Add(b, boundCells(k, n))
		}
	default:
		b = big.NewInt(1)
	}
	if b.Cmp(satCap) > 0 {
		return satCap
	}
	return b
}

// bytes a cell may cost in the implementation (ComponentValue 48 + big.Int/Float values + breadcrumb
// strings that grow with the nesting) and the fixed slack (error value, i18n formatting, type tree).
const (
	allocPerCell = 1024
	allocSlack   = 96 << 10
)

// ---------- the driver ----------

type caseDesc struct {
	Kind    string   `json:"kind"`
	Type    string   `json:"type"`
	Off     int      `json:"off,omitempty"`
	Data    string   `json:"data"` // hex, complete when <= 4 KiB
	DataLen int      `json:"data_len"`
	Full    bool     `json:"full"`
	Mut     string   `json:"mutation"`
	Cls     int      `json:"impl_class"`
	Tree    string   `json:"impl_tree,omitempty"`
	Err     string   `json:"impl_err,omitempty"`
	Alloc   uint64   `json:"impl_alloc_bytes"`
	Topics  []string `json:"topics,omitempty"`
	Request *request `json:"request,omitempty"`
}

type driver struct {
	out      string
	w        *cv.Writer
	st       *cv.Stats
	wk       *worker
	seen     map[string]bool
	nImpl    int
	maxRatio float64
	thorough bool
	samples  int
	batch    []*request // reservoir sample for the concurrent section
	nSeen    int
	rb       *cv.Rand
	nKeyed   int
	nUnkeyed int
}

func (d *driver) fail(what, key string, rq *request, extra map[string]interface{}) {
	// failures classified under a known-finding key must not crowd out the others
	if key != "" {
		d.nKeyed++
		if d.nKeyed > 15 {
			return
		}
	} else {
		d.nUnkeyed++
		if d.nUnkeyed > 40 {
			return
		}
	}
	m := map[string]interface{}{"what": what, "key": key, "request": rq}
	if len(rq.Data) > 8192 {
		cp := *rq
		cp.Data = rq.Data[:8192] + "..."
		m["request"] = &cp
		m["data_len"] = len(rq.Data) / 2
	}
	for k, v := range extra {
		m[k] = v
	}
	d.st.ImplFailures = append(d.st.ImplFailures, m)
}

var fixedTypeRe = regexp.MustCompile(`"type":"[^"]*fixed`)

// requestHasFixedPoint: some type string of the request (entry parameters, error definitions, at any
// component depth) names a fixed-point type; used to classify an unstable case when the caller has
// no type tree at hand (event / error / call-data requests)
func requestHasFixedPoint(rq *request) bool {
	b, _ := json.Marshal(rq)
	return fixedTypeRe.Match(b)
}

// run sends the request through the worker and applies the implementation-only oracles.
func (d *driver) run(rq *request, t *T, mut string) *response {
	cur, _ := json.Marshal(map[string]interface{}{"request": rq, "mutation": mut})
	if len(cur) > 1<<20 {
		cur = cur[:1<<20]
	}
	os.WriteFile(filepath.Join(d.out, "current_case.json"), cur, 0o644)
	d.nImpl++
	rs, died := d.wk.do(rq, 30*time.Second)
	if died != "" {
		d.st.Hit("worker-died")
		d.fail("decoding did not return: "+died, "", rq, map[string]interface{}{"mutation": mut})
		d.wk = startWorker()
		return nil
	}
	d.st.Hit(fmt.Sprintf("class:%s:%d", rq.Kind, rs.Cls))
	if rs.Cls == 2 {
		d.fail("the implementation panicked: "+rs.Panic, "", rq, map[string]interface{}{"mutation": mut})
	}
	if rs.JSONBad != "" {
		d.fail("a decoded tree cannot be serialised to JSON: "+rs.JSONBad, "", rq, map[string]interface{}{"tree": rs.Tree})
	}
	if rs.Slack {
		d.st.Hit("buffer:spare-capacity")
	} else {
		d.st.Hit("buffer:exact")
	}
	if rs.Reused {
		d.st.Hit("objects:reused")
	} else {
		d.st.Hit("objects:fresh")
	}
	d.stateOracles(rs, rq, mut)
	// a sample of the requests is run again at the end from several goroutines at once
	if want := 256; len(rq.Data) <= 4096 && rs.Cls != 2 {
		d.nSeen++
		if len(d.batch) < want {
			d.batch = append(d.batch, rq)
		} else if j := d.rb.Intn(d.nSeen); j < want {
			d.batch[j] = rq
		}
	}
	switch rs.Stable {
	case 1:
		d.st.Hit("stable:yes")
	case 0:
		if rs.Cls == 0 {
			d.st.Hit("stable:not-reencodable")
		}
	default:
		key := ""
		if (t != nil && t.hasFixedPoint()) || (t == nil && requestHasFixedPoint(rq)) {
			key = "C11/fixed-point-reencode"
		}
		d.st.Hit("stable:NO")
		d.fail("decoding the re-encoding of a decoded tree does not give the same tree: "+rs.StableWhy, key, rq, map[string]interface{}{"tree": rs.Tree})
	}
	// memory clause, implementation only: allocated bytes against B(type, |data|)
	if t != nil && !t.zeroSizeElem() {
		n := len(rq.Data) / 2
		for _, tp := range rq.Topics {
			n += len(tp) / 2
		}
		b := boundCells(t, n)
		lim := new(big.Int).Mul(b, big.NewInt(allocPerCell))
		lim.Add(lim, big.NewInt(allocSlack))
		if new(big.Int).SetUint64(rs.Alloc).Cmp(lim) > 0 {
			d.fail(fmt.Sprintf("decoding %d bytes allocated %d bytes, above %d*B(type,len)+%d = %s", n, rs.Alloc, allocPerCell, allocSlack, lim), "", rq,
				map[string]interface{}{"mutation": mut})
		}
		if f, _ := new(big.Float).Quo(new(big.Float).SetUint64(rs.Alloc), new(big.Float).SetInt(lim)).Float64(); f > d.maxRatio {
			d.maxRatio = f
		}
	}
	return rs
}

// aliasBombWitness runs the witness of the known finding C11/alias-bomb-superlinear on the
// implementation (referee issue I2): uint256[][][] where every offset of a level points at ONE array of
// the next level, counts k/k/k.  The decoded tree has k^3 leaves for about 96*k bytes of data: the
// memory used is a function of the data length and the nesting only - what C11_alloc_bound states,
// the bound being a polynomial of degree 3 here (C11_bound_polynomial) - but not "never exhausts
// memory" in any absolute sense (k = 683 fits into 64 KiB: 3e8 nodes).  The oracle is a LINEAR budget,
// 1024 bytes allocated per byte of data; it is applied to this input only (light request: decode,
// count, measure).  A repair that caps the decoded size turns the outcome into an error or brings the
// allocation under the budget, and the finding disappears from the run.
func (d *driver) aliasBombWitness() {
	const k = 100
	var b []byte
	b = append(b, wordInt(32)...)
	for level := 0; level < 2; level++ {
		b = append(b, wordInt(k)...)
		for i := 0; i < k; i++ {
			b = append(b, wordInt(32*k)...) // every offset -> the array right after this offsets area
		}
	}
	b = append(b, wordInt(k)...)
	for i := 0; i < k; i++ {
		b = append(b, wordInt(i)...)
	}
	u256 := el(kUint, 256, 0)
	t := wrap1(dyn(dyn(dyn(u256))))
	rq := &request{Kind: "dec", Params: paramsJSON(t), Data: hex.EncodeToString(b), Light: true}
	const key = "C11/alias-bomb-superlinear"
	how := map[string]interface{}{"witness": fmt.Sprintf("(uint256[][][]): word 32, then twice [count %d, %d offset words %d], then count %d and %d value words; %d bytes", k, k, 32*k, k, k, len(b))}
	d.nImpl++
	rs, died := d.wk.do(rq, 120*time.Second)
	if died != "" {
		d.st.Hit("witness:alias-bomb-3:died")
		d.fail("decoding the alias-bomb witness did not return: "+died, key, rq, how)
		d.wk = startWorker()
		return
	}
	d.st.Hit(fmt.Sprintf("witness:alias-bomb-3:class:%d", rs.Cls))
	if rs.Cls == 2 {
		d.fail("the implementation panicked: "+rs.Panic, "", rq, how)
		return
	}
	if lin := uint64(1024 * (len(b) + 1)); rs.Alloc > lin {
		d.fail(fmt.Sprintf("decoding %d bytes as (uint256[][][]) allocated %d bytes for %d nodes, above the linear budget of 1024 bytes per byte of data (%d): memory grows with the cube of the data length when offsets alias", len(b), rs.Alloc, rs.Nodes, lin), key, rq, how)
	}
	if d.st.Extra == nil {
		d.st.Extra = map[string]interface{}{}
	}
	d.st.Extra["alias_bomb_witness"] = fmt.Sprintf("%d bytes -> %d nodes, %d bytes allocated", len(b), rs.Nodes, rs.Alloc)
}

// stateOracles: the implementation-only oracles about state kept across calls and shared memory.
func (d *driver) stateOracles(rs *response, rq *request, mut string) {
	if rs.InputMod != "" {
		d.fail("decoding modified its input: "+rs.InputMod, "", rq, map[string]interface{}{"mutation": mut})
	}
	if rs.RepeatBad != "" {
		d.fail("decoding the same bytes twice with the same definition objects gave different results (the result depends on something other than the definition and the bytes): "+rs.RepeatBad, "", rq,
			map[string]interface{}{"mutation": mut, "objects_reused_from_earlier_requests": rs.Reused,
				"first_call_buffer_had_spare_capacity_behind_the_data": rs.Slack, "second_call_buffer": "exact copy"})
	}
	if rs.AliasBad != "" {
		d.fail("a returned tree shares memory with the data buffer passed in (re-encoding it later gives something else): "+rs.AliasBad, "", rq,
			map[string]interface{}{"mutation": mut, "tree": rs.Tree})
	}
	if rs.RetainedBad != "" {
		var early request
		json.Unmarshal(rs.RetainedReq, &early)
		d.fail("a tree returned by an earlier call changed while later calls ran: "+rs.RetainedBad, "", &early,
			map[string]interface{}{"later_request": rq, "note": "state kept across calls: replaying the single request does not reproduce it"})
	}
}

// finish: re-verify all retained trees, then the concurrent section.
func (d *driver) finish() {
	rq := &request{Kind: "flush"}
	if rs, died := d.wk.do(rq, 60*time.Second); died != "" {
		d.fail("worker ended while re-verifying retained trees: "+died, "", rq, nil)
		d.wk = startWorker()
	} else {
		d.stateOracles(rs, rq, "flush")
	}
	if len(d.batch) == 0 {
		return
	}
	cq := &request{Kind: "conc", Batch: d.batch, Off: 1500}
	if d.thorough {
		cq.Off = 8000
	}
	os.WriteFile(filepath.Join(d.out, "current_case.json"), []byte(`{"mutation":"concurrent section"}`), 0o644)
	rs, died := d.wk.do(cq, 120*time.Second)
	if died != "" {
		d.fail("the concurrent section (8 goroutines decoding with shared definition objects) did not return: "+died, "", &request{Kind: "conc"}, nil)
		d.wk = startWorker()
		return
	}
	d.st.Extra["concurrent_section"] = fmt.Sprintf("%d requests, 8 goroutines, %d calls in %d ms", len(d.batch), rs.Nodes, cq.Off)
	if rs.ConcBad != "" {
		d.fail("a call answered differently while other goroutines were decoding with the same definition objects: "+rs.ConcBad, "", d.batch[rs.ConcIdx],
			map[string]interface{}{"note": "needs concurrent calls; replaying the single request does not reproduce it"})
	}
}

func paramsJSON(t *T) json.RawMessage {
	b, _ := json.Marshal(t.Params())
	return b
}

func (d *driver) describe(kind string, t *T, off int, data []byte, mut string, rs *response, rq *request) *caseDesc {
	c := &caseDesc{Kind: kind, Type: t.Sig(), Off: off, DataLen: len(data), Mut: mut, Cls: rs.Cls, Tree: rs.Tree, Err: rs.Err, Alloc: rs.Alloc}
	if len(data) <= 4096 {
		c.Data, c.Full = hex.EncodeToString(data), true
		c.Request = rq
	} else {
		c.Data = hex.EncodeToString(data[:128]) + "..."
	}
	return c
}

// addDec: return data through ParameterArray.DecodeABIData(data, off) and through the model.
// t is the tuple of parameters.
func (d *driver) addDec(t *T, data []byte, off int, mut string) {
	key := fmt.Sprintf("dec|%s|%d|%x", t.Sig(), off, data)
	if d.seen[key] {
		return
	}
	d.seen[key] = true
	rq := &request{Kind: "dec", Params: paramsJSON(t), Off: off, Data: hex.EncodeToString(data)}
	rs := d.run(rq, t, mut)
	if rs == nil {
		return
	}
	d.st.Hit("mut:" + mut)
	d.countShape(t, data)
	desc := d.describe("dec", t, off, data, mut, rs, rq)
	memchk := "true"
	if t.zeroSizeElem() {
		memchk = "false"
	}
	d.w.Add(fmt.Sprintf("CDec %s %s %d %d %d %d %d %d %s", t.Coq(), cv.Compress(data).Coq(), off, rs.Cls, rs.DigLen, rs.DigA, rs.DigB, rs.Alloc, memchk), desc)
	if d.samples < 6 && len(data) > 64 && len(data) < 300 && mut != "valid" {
		d.samples++
		d.st.Samples = append(d.st.Samples, desc)
	}
}

func selectorFull(sig string) []byte {
	h := sha3.NewLegacyKeccak256()
	h.Write([]byte(sig))
	return h.Sum(nil)
}

func selector(name string, t *T) []byte { return selectorFull(name + t.Sig())[:4] }

// addCall: call data through Entry.DecodeCallData and the model's DecodeCallData with the selector
// computed here from the canonical signature.
func (d *driver) addCall(name string, t *T, data []byte, mut string) {
	key := fmt.Sprintf("call|%s|%s|%x", name, t.Sig(), data)
	if d.seen[key] {
		return
	}
	d.seen[key] = true
	rq := &request{Kind: "call", Name: name, Params: paramsJSON(t), Data: hex.EncodeToString(data)}
	rs := d.run(rq, t, mut)
	if rs == nil {
		return
	}
	d.st.Hit("mut:" + mut)
	d.countShape(t, data)
	desc := d.describe("call", t, 0, data, mut, rs, rq)
	memchk := "true"
	if t.zeroSizeElem() {
		memchk = "false"
	}
	d.w.Add(fmt.Sprintf("CCall %s %s %s %d %d %d %d %d %s", cv.CoqBytes(selector(name, t)), t.Coq(), cv.Compress(data).Coq(), rs.Cls, rs.DigLen, rs.DigA, rs.DigB, rs.Alloc, memchk), desc)
}

func (d *driver) countShape(t *T, data []byte) {
	if len(data) > 32 {
		d.st.Distinct++
	}
	d.st.Hit(fmt.Sprintf("depth:%d", t.depth()))
	switch n := len(data); {
	case n == 0:
		d.st.Hit("len:0")
	case n < 32:
		d.st.Hit("len:1-31")
	case n <= 256:
		d.st.Hit("len:32-256")
	case n <= 4096:
		d.st.Hit("len:257-4096")
	default:
		d.st.Hit("len:>4096")
	}
}

// boundary values of the property's quantifier for an encoding of length n, plus the values at
// which the guards of the decoder flip for a word at position p (remaining r = n - (p+32)).
func boundaryWords(n, p int) []*big.Int {
	two := func(k uint) *big.Int { return new(big.Int).Lsh(big.NewInt(1), k) }
	sub1 := func(z *big.Int) *big.Int { return new(big.Int).Sub(z, big.NewInt(1)) }
	out := []*big.Int{
		big.NewInt(0), big.NewInt(1), big.NewInt(31), big.NewInt(32),
		big.NewInt(int64(n - 32)), big.NewInt(int64(n)), big.NewInt(int64(n + 1)),
		two(31), sub1(two(32)), two(32), two(63), sub1(two(64)), two(255), sub1(two(256)),
	}
	r := n - (p + 32)
	if r < 0 {
		r = 0
	}
	for _, v := range []int{r / 32, r/32 + 1, r/32 + 2, r / 16, r - 33, r - 32, r - 31, r - 1, r, r + 1, n - 33, n - 31, n - 64, 33, 64} {
		if v >= 0 {
			out = append(out, big.NewInt(int64(v)))
		}
	}
	return out
}

func replaceWord(enc []byte, p int, v *big.Int) []byte {
	out := append([]byte{}, enc...)
	copy(out[p:p+32], word(v))
	return out
}

func wrap1(t *T) *T { return tup(t) }

func main() {
	if len(os.Args) > 1 && os.Args[1] == "-worker" {
		workerMain()
		return
	}
	out := flag.String("out", "", "output directory")
	tier := flag.String("tier", "quick", "quick|thorough")
	replay := flag.String("replay", "", "replay file")
	flag.Parse()
	if *out == "" {
		fmt.Fprintln(os.Stderr, "need -out")
		os.Exit(2)
	}
	os.MkdirAll(*out, 0o755)
	header := "From Coq Require Import String List NArith ZArith Uint63.\nFrom FFS Require Import Base.Bytes Base.Lit Abi.Types Abi.RunC11.\nImport ListNotations.\nOpen Scope string_scope. Open Scope N_scope."
	d := &driver{out: *out, st: cv.NewStats(), seen: map[string]bool{}, thorough: *tier == "thorough", rb: cv.NewRand(1111)}
	d.w = cv.NewWriter(*out, "C11", header, "case", "mismatches", 16)
	d.wk = startWorker()
	defer d.wk.stop()

	if *replay != "" {
		d.replay(*replay, header)
		return
	}
	d.generate()
	d.finish()
	if err := d.w.Flush(); err != nil {
		panic(err)
	}
	os.Remove(filepath.Join(*out, "current_case.json"))
	d.st.Evaluations = d.nImpl
	d.st.Extra["coq_cases"] = d.w.Count()
	d.st.Extra["max_alloc_over_bound"] = d.maxRatio
	d.st.Extra["alloc_bound"] = fmt.Sprintf("bytes <= %d*B(type,len)+%d (Go side); bytes <= alloc_per_unit*model_cost+slack (RunC11.v)", allocPerCell, allocSlack)
	d.st.Rule = "valid specification encodings of random values for ~170 systematic type shapes (every two-level stacking of T[], T[2], (T), (uint8,T), (T,address) over static and dynamic leaves) and random types to depth 4; each offset/count/byte-length word replaced by the 14 boundary values of the quantifier and by the decoder's guard flip points for that position; truncation/extension at word boundaries +-1; word-structured and plain random bytes up to 64 KiB; call data with right/wrong/short selectors; events with topic lists of length 0..5 and widths 0/31/32/33; revert data against 0..3 error definitions; directed (round 3): every elementary reader x dirty padding / exact fit / one byte short or long at four positions, bytes/string payloads ending exactly at the end of the data, every marked word of 19 nested shapes (empty, minimal, small values) x the flip points of the guard that reads it, head-occupying element types x hostile counts, one indexed input of every type x topic widths 0/1/20/31/32/33/64. The worker keeps the parsed definition objects across requests, repeats every call, hands every second input over with spare capacity behind it, overwrites the data buffer after the call, re-reads retained trees later and ends with a concurrent section. distinct_nontrivial = distinct (entry point, type, data) with more than 32 bytes of data"
	if err := d.st.Write(filepath.Join(*out, "stats_C11.json")); err != nil {
		panic(err)
	}
}

func (d *driver) replay(path, header string) {
	raw, err := os.ReadFile(path)
	if err != nil {
		panic(err)
	}
	var rp struct {
		Case json.RawMessage `json:"case"`
	}
	json.Unmarshal(raw, &rp)
	var withReq struct {
		Request *request `json:"request"`
		Kind    string   `json:"kind"`
		Type    string   `json:"type"`
		Off     int      `json:"off"`
		Mut     string   `json:"mutation"`
	}
	json.Unmarshal(rp.Case, &withReq)
	if withReq.Request != nil && !strings.HasSuffix(withReq.Request.Data, "...") {
		rq := withReq.Request
		// twice: the worker hands the bytes over exactly sized the first time and with spare capacity
		// behind them the second time, and the second run uses the definition objects of the first
		for pass := 0; pass < 2; pass++ {
			rs, died := d.wk.do(rq, 60*time.Second)
			if died != "" {
				fmt.Println("implementation:", died)
				d.wk = startWorker()
			} else {
				b, _ := json.MarshalIndent(rs, "", " ")
				fmt.Printf("implementation (run %d): %s\n", pass+1, string(b))
			}
		}
		// return data / call data: write the case again so that ./check evaluates the model on it
		if t, err := parseSig(withReq.Type); err == nil && t.K == kTuple && (rq.Kind == "dec" || rq.Kind == "call") {
			d.w = cv.NewWriter(d.out, "C11", header, "case", "mismatches", 1)
			data, _ := hex.DecodeString(rq.Data)
			if rq.Kind == "dec" {
				d.addDec(t, data, rq.Off, "replay")
			} else {
				d.addCall(rq.Name, t, data, "replay")
			}
			d.w.Flush()
			fmt.Println("model: evaluated by ./check on the re-written case (a disagreement or oracle failure is reported below)")
		}
		d.st.Evaluations = 1
		d.st.Write(filepath.Join(d.out, "stats_C11.json"))
		return
	}
	var c caseDesc
	json.Unmarshal(rp.Case, &c)
	if !c.Full {
		fmt.Println("replay: the case holds no complete literal input (large input); description:", string(rp.Case))
		d.st.Write(filepath.Join(d.out, "stats_C11.json"))
		return
	}
	fmt.Println("replay: re-running is supported for cases that carry their request; this one is described as:", string(rp.Case))
	d.st.Write(filepath.Join(d.out, "stats_C11.json"))
}
