// Round 3 additions to the C05 harness: Go-side property oracles that look for what a harness that builds
// a fresh object per case and checks the result immediately cannot see --
//   - state kept across calls (one SignatureData / KeyPair object used for a whole sequence of operations,
//     every result compared with the result of the same call on a fresh copy),
//   - aliasing (results retained and compared again at the end of the run; input buffers overwritten after
//     the call; the call must not modify the signature / message / key it was given),
//   - a concurrent section (the serial results must be reproduced by 8 goroutines sharing the objects),
//   - boundary keys only the address derivation cares about (public keys whose X or Y has leading zero bytes),
//   - the two constructors no other case reaches (GenerateSecp256k1KeyPair, NewSecp256k1KeyPair).
//
// Every failure is a concrete input recorded in stats.impl_oracle_failures (a search for a failing input on
// the implementation; the theorems stay about the model).
package main

import (
	"bytes"
	"context"
	"fmt"
	"math/big"
	"sync"

	dcr "github.com/decred/dcrd/dcrec/secp256k1/v4"
	"github.com/hyperledger/firefly-signer/pkg/ethtypes"
	"github.com/hyperledger/firefly-signer/pkg/secp256k1"
)

// ---- failure collection (bounded per kind, so that a systematic failure does not flood the stats file) ----

var ctxBg = context.Background()

var (
	failMu    sync.Mutex
	failures  []interface{}
	failCount = map[string]int{}
)

func noteFail(what string, fields map[string]interface{}) {
	failMu.Lock()
	defer failMu.Unlock()
	failCount[what]++
	if failCount[what] > 4 {
		return
	}
	m := map[string]interface{}{"what": what, "key": ""}
	for k, v := range fields {
		m[k] = v
	}
	failures = append(failures, m)
}

func scribble(b []byte) {
	for i := range b {
		b[i] ^= 0xa5
	}
}

func sigFields(s sig, msg []byte, chain int64) map[string]interface{} {
	m := map[string]interface{}{"V": s.V.String(), "R": s.R.String(), "S": s.S.String(), "chain_id": chain}
	if len(msg) <= 200 {
		m["message"] = hx(msg)
	} else {
		m["message"] = hx(msg[:32]) + fmt.Sprintf("...(%d bytes)", len(msg))
	}
	return m
}

// ---- retained results: compared again at the end of the run ----

type retKP struct {
	kp              *secp256k1.KeyPair
	key             []byte
	addr, pub, priv []byte
}
type retSig struct {
	sd      *secp256k1.SignatureData
	v, r, s *big.Int
	kp      *secp256k1.KeyPair
	msg     []byte
	hashing bool
	src     string
}
type retAddr struct {
	p    *ethtypes.Address0xHex
	a    []byte
	from map[string]interface{}
}
type retBytes struct {
	p, copy []byte
	what    string
}

var (
	retMu     sync.Mutex
	retKPs    []retKP
	retSigs   []retSig
	retAddrs  []retAddr
	retOthers []retBytes
)

func retainKP(kp *secp256k1.KeyPair, key []byte) {
	retMu.Lock()
	defer retMu.Unlock()
	retKPs = append(retKPs, retKP{kp, append([]byte{}, key...), append([]byte{}, kp.Address[:]...), append([]byte{}, kp.PublicKeyBytes()...), append([]byte{}, kp.PrivateKeyBytes()...)})
}

func retainSig(sd *secp256k1.SignatureData, kp *secp256k1.KeyPair, msg []byte, hashing bool) {
	src := "Sign/SignDirect"
	if kp == nil {
		src = "DecodeCompactRSV"
	}
	retMu.Lock()
	defer retMu.Unlock()
	if len(retSigs) > 4000 {
		return
	}
	retSigs = append(retSigs, retSig{sd, cp(sd.V), cp(sd.R), cp(sd.S), kp, append([]byte{}, msg...), hashing, src})
}

func retainAddr(p *ethtypes.Address0xHex, from map[string]interface{}) {
	retMu.Lock()
	defer retMu.Unlock()
	if len(retAddrs) > 20000 {
		return
	}
	retAddrs = append(retAddrs, retAddr{p, append([]byte{}, p[:]...), from})
}

func retainBytes(p []byte, what string) {
	retMu.Lock()
	defer retMu.Unlock()
	if len(retOthers) > 4000 {
		return
	}
	retOthers = append(retOthers, retBytes{p, append([]byte{}, p...), what})
}

// checkRetained: everything the implementation returned earlier must still hold the value it had when it was
// returned, and signing the same message with the same KeyPair object again must give the same signature.
func checkRetained(g *gen) {
	for _, k := range retKPs {
		if !bytes.Equal(k.kp.Address[:], k.addr) || !bytes.Equal(k.kp.PublicKeyBytes(), k.pub) || !bytes.Equal(k.kp.PrivateKeyBytes(), k.priv) {
			noteFail("a KeyPair returned earlier changed after later calls (address / public key / private key)", map[string]interface{}{"private_key": hx(k.key)})
		}
		if !bytes.Equal(keccak(k.pub)[12:], k.addr) {
			noteFail("address is not the last 20 bytes of keccak256 of the public key", map[string]interface{}{"private_key": hx(k.key)})
		}
		g.st.Hit("retained/keypair")
	}
	for i, s := range retSigs {
		if s.sd.V.Cmp(s.v) != 0 || s.sd.R.Cmp(s.r) != 0 || s.sd.S.Cmp(s.s) != 0 {
			noteFail("a signature returned earlier by "+s.src+" changed after later calls", map[string]interface{}{"V": s.v.String(), "R": s.r.String(), "S": s.s.String(), "now_V": s.sd.V.String(), "now_R": s.sd.R.String(), "now_S": s.sd.S.String(), "message": hx(s.msg)})
		}
		g.st.Hit("retained/signature")
		if i%2 == 0 && s.kp != nil {
			// the same KeyPair object, the same message, later: the same signature (RFC 6979 is deterministic)
			cls, again := doSignRaw(s.hashing, s.kp, s.msg)
			if cls != 0 || again.V.Cmp(s.v) != 0 || again.R.Cmp(s.r) != 0 || again.S.Cmp(s.s) != 0 {
				noteFail("signing the same message again with the same KeyPair object gives another result", map[string]interface{}{"private_key": hx(s.kp.PrivateKeyBytes()), "message": hx(s.msg), "hashing": s.hashing, "first_R": s.r.String(), "again": clsName(cls), "again_R": again.R.String()})
			}
			g.st.Hit("retained/re-sign")
			g.st.Evaluations++
		}
	}
	for _, a := range retAddrs {
		if !bytes.Equal(a.p[:], a.a) {
			f := map[string]interface{}{"returned": hx(a.a), "now": hx(a.p[:])}
			for k, v := range a.from {
				f[k] = v
			}
			noteFail("an address returned earlier by Recover/RecoverDirect changed after later calls", f)
		}
		g.st.Hit("retained/address")
	}
	for _, b := range retOthers {
		if !bytes.Equal(b.p, b.copy) {
			noteFail("a byte slice returned earlier changed after later calls: "+b.what, map[string]interface{}{"returned": hx(b.copy), "now": hx(b.p)})
		}
		g.st.Hit("retained/bytes")
	}
}

// keyGone: the private key of a key pair that was built from a key in [1, n-1] reads zero (btcec's signing loop
// does not terminate for the zero key on the zero digest, so this is checked before every signing call)
func keyGone(kp *secp256k1.KeyPair) bool {
	if kp == nil || kp.PrivateKey == nil {
		return false
	}
	if fromBytes(kp.PrivateKeyBytes()).Sign() != 0 {
		return false
	}
	noteFail("the private key of a KeyPair reads zero after earlier calls", map[string]interface{}{"address": kp.Address.String()})
	return true
}

// doSignRaw: Sign / SignDirect without book-keeping
func doSignRaw(hashing bool, kp *secp256k1.KeyPair, msg []byte) (cls int, s sig) {
	defer func() {
		if r := recover(); r != nil {
			cls, s = 2, sig{bi(0), bi(0), bi(0)}
		}
	}()
	var sd *secp256k1.SignatureData
	var err error
	if keyGone(kp) {
		return 1, sig{bi(0), bi(0), bi(0)}
	}
	if hashing {
		sd, err = kp.Sign(msg)
	} else {
		sd, err = kp.SignDirect(msg)
	}
	if err != nil || sd == nil {
		return 1, sig{bi(0), bi(0), bi(0)}
	}
	return 0, sig{cp(sd.V), cp(sd.R), cp(sd.S)}
}

// recoverOn calls Recover / RecoverDirect on the object itself (no copy).
func recoverOn(hashing bool, sd *secp256k1.SignatureData, msg []byte, chain int64) (cls int, addr []byte) {
	defer func() {
		if r := recover(); r != nil {
			cls, addr = 2, nil
		}
	}()
	var x *ethtypes.Address0xHex
	var err error
	if hashing {
		x, err = sd.Recover(msg, chain)
	} else {
		x, err = sd.RecoverDirect(msg, chain)
	}
	if err != nil || x == nil {
		return 1, nil
	}
	return 0, append([]byte{}, x[:]...)
}

// ---- independent public key (the library's group arithmetic called directly, no firefly-signer code) ----

func indepPub(d *big.Int) (x, y []byte) {
	var k dcr.ModNScalar
	k.SetByteSlice(be32(d))
	var p dcr.JacobianPoint
	dcr.ScalarBaseMultNonConst(&k, &p)
	p.ToAffine()
	xb, yb := p.X.Bytes(), p.Y.Bytes()
	return append([]byte{}, xb[:]...), append([]byte{}, yb[:]...)
}

func leadingZeros(b []byte) int {
	n := 0
	for n < len(b) && b[n] == 0 {
		n++
	}
	return n
}

// checkKeyIndependently: KeyPairFromBytes(be32(d)) against keccak256(X||Y)[12:] of the independently computed point
func checkKeyIndependently(g *gen, d *big.Int, what string) {
	kb := be32(d)
	in := append([]byte{}, kb...)
	kp := secp256k1.KeyPairFromBytes(in)
	scribble(in)
	x, y := indepPub(d)
	xy := append(append([]byte{}, x...), y...)
	bad := ""
	switch {
	case !bytes.Equal(kp.PublicKeyBytes(), xy):
		bad = "PublicKeyBytes is not X(32, big-endian) || Y(32) of key*G"
	case !bytes.Equal(kp.Address[:], keccak(xy)[12:]):
		bad = "address is not the last 20 bytes of keccak256 of the uncompressed public key (without the 04 prefix)"
	case !bytes.Equal(kp.PrivateKeyBytes(), kb):
		bad = "PrivateKeyBytes is not the 32-byte big-endian key"
	}
	if bad != "" {
		noteFail(bad, map[string]interface{}{"private_key": hx(kb), "public_key_X": hx(x), "public_key_Y": hx(y), "implementation_address": kp.Address.String(), "implementation_public_key": hx(kp.PublicKeyBytes())})
	}
	g.st.Hit("key-sweep/" + what)
	g.st.Hit(fmt.Sprintf("key-sweep/pub-X-leading-zero-bytes/%d", leadingZeros(x)))
	g.st.Hit(fmt.Sprintf("key-sweep/pub-Y-leading-zero-bytes/%d", leadingZeros(y)))
	g.st.Evaluations++
}

// keySweep: the scalars 1..count and count consecutive scalars from a seed-dependent start; returns keys whose
// public key has a leading zero byte in X, in Y (for the Coq-side cases)
func keySweep(g *gen, count int) (xlz, ylz []byte) {
	start := fromBytes(randKey(g.r))
	start.Rsh(start, 1) // room for count successors below n
	for i := 1; i <= count; i++ {
		checkKeyIndependently(g, bi(int64(i)), "small-scalar")
		d := add(start, bi(int64(i)))
		checkKeyIndependently(g, d, "consecutive-from-random")
		if xlz == nil || ylz == nil {
			x, y := indepPub(d)
			if xlz == nil && leadingZeros(x) > 0 {
				xlz = be32(d)
			} else if ylz == nil && leadingZeros(y) > 0 && leadingZeros(x) == 0 {
				ylz = be32(d)
			}
		}
	}
	for _, d := range []*big.Int{sub(curveN, bi(1)), sub(curveN, bi(2)), sub(curveN, bi(1417)), new(big.Int).Rsh(curveN, 1)} {
		checkKeyIndependently(g, d, "boundary")
	}
	return
}

// ---- constructors nothing else reaches ----

func constructors(g *gen, n int) {
	for i := 0; i < n; i++ {
		func() {
			defer func() {
				if r := recover(); r != nil {
					noteFail("GenerateSecp256k1KeyPair / NewSecp256k1KeyPair panicked", map[string]interface{}{"panic": fmt.Sprint(r)})
				}
			}()
			kp, err := secp256k1.GenerateSecp256k1KeyPair()
			if err != nil || kp == nil {
				noteFail("GenerateSecp256k1KeyPair failed", nil)
				return
			}
			priv := kp.PrivateKeyBytes()
			d := fromBytes(priv)
			f := map[string]interface{}{"private_key": hx(priv)}
			if len(priv) != 32 || d.Sign() <= 0 || d.Cmp(curveN) >= 0 {
				noteFail("GenerateSecp256k1KeyPair: private key is not 32 bytes in [1, n-1]", f)
				return
			}
			x, y := indepPub(d)
			xy := append(append([]byte{}, x...), y...)
			if !bytes.Equal(kp.PublicKeyBytes(), xy) || !bytes.Equal(kp.Address[:], keccak(xy)[12:]) {
				noteFail("GenerateSecp256k1KeyPair: public key / address do not belong to the private key", f)
			}
			// the deprecated constructor is KeyPairFromBytes
			in := append([]byte{}, priv...)
			kp2, err := secp256k1.NewSecp256k1KeyPair(in)
			scribble(in)
			kp3 := secp256k1.KeyPairFromBytes(priv)
			if err != nil || kp2 == nil || !bytes.Equal(kp2.PrivateKeyBytes(), priv) || !bytes.Equal(kp2.PublicKeyBytes(), xy) || kp2.Address != kp.Address ||
				kp3.Address != kp.Address || !bytes.Equal(kp3.PublicKeyBytes(), xy) {
				noteFail("NewSecp256k1KeyPair / KeyPairFromBytes of a generated key's bytes is another key pair", f)
			}
			// generated key signs, the three conventions recover it
			msg := g.r.Bytes(g.r.Intn(100))
			for _, pair := range []*secp256k1.KeyPair{kp, kp2} {
				cls, s := doSign(true, pair, msg)
				if cls != 0 {
					noteFail("a generated key pair failed to sign", f)
					continue
				}
				p := s.V.Int64() - 27
				chain := chains[g.r.Intn(len(chains))]
				for _, v := range validV(p, chain) {
					c, a := doRecover(true, sig{v, s.R, s.S}, msg, chain)
					if c != 0 || !bytes.Equal(a, kp.Address[:]) {
						ff := sigFields(sig{v, s.R, s.S}, msg, chain)
						ff["private_key"] = hx(priv)
						noteFail("a signature of a generated key pair did not recover its address", ff)
					}
					g.st.Evaluations++
				}
			}
			g.st.Hit("constructors/generate+new")
		}()
	}
	// nil signer: outside the property (no key); run for the record only
	func() {
		defer func() {
			if r := recover(); r != nil {
				g.st.Hit("constructors/nil-signer/panic")
			}
		}()
		_, err := (*secp256k1.KeyPair)(nil).Sign([]byte("x"))
		if err != nil {
			g.st.Hit("constructors/nil-signer/err")
		} else {
			g.st.Hit("constructors/nil-signer/ok")
		}
	}()
}

// ---- one SignatureData object through a sequence of operations ----

type seqSigned struct {
	kp      *secp256k1.KeyPair
	msg     []byte
	hashing bool
	s       sig
}

func isValidV(v *big.Int, p, chain int64) bool {
	for _, x := range validV(p, chain) {
		if x.Cmp(v) == 0 {
			return true
		}
	}
	return false
}

// sequence: the object is created once; each step changes V (in place, by replacing the pointer, or not at
// all), possibly S or the message, and the chain id; the call on the reused object must give what the call on
// a fresh copy gives, must leave the object as it was, and must meet the property's expectation.
func sequence(g *gen, sg seqSigned, idx int) {
	r := g.r
	R, S := sg.s.R, sg.s.S
	p := sg.s.V.Int64() - 27
	if p != 0 && p != 1 {
		return
	}
	signer := sg.kp.Address[:]
	c1 := chains[idx%len(chains)]
	c2 := chains[(idx*5+1)%len(chains)]
	if c2 == c1 {
		c2 = c1 + 7
	}
	rc := int64(r.U64() >> 11)
	type step struct {
		v      *big.Int // nil: leave V as the previous step left it
		chain  int64
		tamper int // 0 none, 1 S+1, 2 other message, 3 R+1, 4 -R, 5 -S, 6 R+n, 7 n-S (parity kept)
	}
	v155 := func(q, c int64) *big.Int { return validV(q, c)[2] }
	pool := []step{
		{bi(27 + p), c1, 0}, {bi(p), c1, 0}, {v155(p, c1), c1, 0}, {nil, c1 + 1, 0}, {nil, c2, 0}, {v155(p, c2), c2, 0}, {nil, c1, 0},
		{bi(27 + 1 - p), c1, 0}, {bi(1 - p), c2, 0}, {v155(1-p, c1), c1, 0}, {v155(p, c1), c1, 0}, {bi(29), c1, 0}, {bi(26), c1, 0}, {bi(2), c2, 0},
		{add(v155(p, c1), bi(2)), c1, 0}, {sub(v155(p, c1), bi(2)), c1, 0}, {add(two63, v155(p, c1)), c1, 0}, {add(two64, bi(27+p)), c1, 0},
		{v155(p, rc), rc, 0}, {nil, rc + 1, 0}, {nil, rc, 0}, {bi(27 + p), rc, 1}, {bi(27 + p), c2, 0}, {bi(p), c2, 2}, {bi(p), c1, 0}, {v155(p, c2), c2, 3}, {v155(p, c2), c2, 0},
		{bi(27 + p), c1, 4}, {v155(p, c1), c1, 5}, {bi(p), c2, 6}, {bi(27 + p), c2, 7}, {bi(p), c1, 5}, {v155(p, c2), c2, 4},
		{bi(27 + p), 0, 0}, {bi(35 + p), 0, 0}, {nil, 0, 0}, {bi(36 - p), 0, 0}, {bi(p), 1 << 53, 0}, {v155(p, 1<<53), 1 << 53, 0}, {nil, 1<<53 - 1, 0},
	}
	// first steps fixed (a legitimate call first, then the same object with a foreign / flipped V for the same
	// chain and with the same V for another chain), the rest in PRNG order
	order := []int{2, 9, 2, 3, 6, 0, 7, 0, 1, 8}
	perm := make([]int, len(pool))
	for i := range perm {
		perm[i] = i
	}
	for i := len(perm) - 1; i > 0; i-- {
		j := r.Intn(i + 1)
		perm[i], perm[j] = perm[j], perm[i]
	}
	order = append(order, perm...) // every step of the pool once more, in PRNG order
	sd := &secp256k1.SignatureData{V: cp(sg.s.V), R: cp(R), S: cp(S)}
	cur := cp(sg.s.V)
	other := append([]byte{}, sg.msg...)
	if len(other) == 0 {
		other = []byte{1}
	} else {
		other[len(other)-1] ^= 0x10
	}
	for n, oi := range order {
		st := pool[oi]
		if st.v != nil {
			cur = cp(st.v)
			switch n % 3 {
			case 0:
				sd.V.Set(cur) // in place
			case 1:
				sd.V = cp(cur) // a new big.Int
			default:
				sd.V.SetInt64(0)
				sd.V.Add(sd.V, cur)
			}
		}
		curS, curR, msg := S, R, sg.msg
		switch st.tamper {
		case 1:
			curS = add(S, bi(1))
		case 2:
			msg = other
		case 3:
			curR = add(R, bi(1))
		case 4:
			curR = new(big.Int).Neg(R)
		case 5:
			curS = new(big.Int).Neg(S)
		case 6:
			curR = add(R, curveN)
		case 7:
			curS = sub(curveN, S)
		}
		sd.S.Set(curS)
		sd.R.Set(curR)
		m := append([]byte{}, msg...)
		cls, addr := recoverOn(sg.hashing, sd, m, st.chain)
		now := sig{cp(sd.V), cp(sd.R), cp(sd.S)}
		intended := sig{cur, curR, curS}
		f := sigFields(intended, msg, st.chain)
		f["hashing"] = sg.hashing
		f["step"] = n
		f["signer"] = hx(signer)
		if !bytes.Equal(m, msg) {
			noteFail("Recover/RecoverDirect modified the message it was given", f)
		}
		scribble(m)
		if now.V.Cmp(cur) != 0 || now.R.Cmp(curR) != 0 || now.S.Cmp(curS) != 0 {
			f["after_V"], f["after_R"], f["after_S"] = now.V.String(), now.R.String(), now.S.String()
			noteFail("Recover/RecoverDirect modified the signature it was called on", f)
			sd.V = cp(cur)
		}
		fcls, faddr := doRecover(sg.hashing, intended, msg, st.chain)
		g.st.Evaluations += 2
		if fcls != cls || !bytes.Equal(faddr, addr) {
			f["reused_object"], f["fresh_object"] = clsName(cls)+" "+hx(addr), clsName(fcls)+" "+hx(faddr)
			noteFail("Recover/RecoverDirect on a SignatureData object used before differs from the same call on a fresh copy", f)
		}
		isSigner := cls == 0 && bytes.Equal(addr, signer)
		genuine := st.tamper == 0
		switch {
		case cls == 2:
			noteFail("Recover/RecoverDirect panicked", f)
		case genuine && isValidV(cur, p, st.chain) && !isSigner:
			noteFail("a valid signature presented in one of the three V conventions did not recover the signer's address (sequence on one object)", f)
		case isSigner && (!genuine || !isValidV(cur, p, st.chain)):
			if genuine && explainedByTruncation(cur, st.chain) {
				g.st.Hit("sequence/known-finding-region")
			} else {
				noteFail("a foreign V / tampered signature / different message recovered the signer's address (sequence on one object)", f)
			}
		}
		g.st.Hit("sequence/step/" + clsName(cls))
	}
	g.distinct(fmt.Sprintf("sequence:%s", R))
	// the codec on the same object: CompactRSV twice, the outputs retained, the signature untouched
	sd.V, sd.R, sd.S = bi(27+p), cp(R), cp(S)
	o1 := sd.CompactRSV()
	retainBytes(o1, "CompactRSV")
	sd.V.SetInt64(p)
	o2 := sd.CompactRSV()
	retainBytes(o2, "CompactRSV")
	if sd.V.Cmp(bi(p)) != 0 || sd.R.Cmp(R) != 0 || sd.S.Cmp(S) != 0 {
		noteFail("CompactRSV modified the signature it was called on", sigFields(sig{bi(p), R, S}, nil, 0))
	}
	if len(o1) != 65 || len(o2) != 65 || o1[64] != byte(27+p) || o2[64] != byte(p) || !bytes.Equal(o1[:64], o2[:64]) {
		noteFail("CompactRSV is not R(32, big-endian) || S(32) || V(1)", sigFields(sig{bi(p), R, S}, nil, 0))
	}
	// the decoder's result must not share the input buffer
	in := append([]byte{}, o1...)
	if dec, err := secp256k1.DecodeCompactRSV(ctxBg, in); err == nil {
		scribble(in)
		if dec.V.Cmp(bi(27+p)) != 0 || dec.R.Cmp(R) != 0 || dec.S.Cmp(S) != 0 {
			noteFail("DecodeCompactRSV(CompactRSV(sig)) differs from sig (after the input buffer was overwritten)", sigFields(sig{bi(27 + p), R, S}, nil, 0))
		}
		// and recovers, then again after UpdateEIP155 on the decoded object
		if c, a := recoverOn(sg.hashing, dec, sg.msg, c1); c != 0 || !bytes.Equal(a, signer) {
			noteFail("a decoded compact signature did not recover the signer's address", sigFields(sig{bi(27 + p), R, S}, sg.msg, c1))
		}
		dec.UpdateEIP155(c2)
		if dec.V.Cmp(v155(p, c2)) != 0 {
			noteFail("UpdateEIP155 did not yield 35 + 2*chainId + parity", sigFields(sig{bi(27 + p), R, S}, sg.msg, c2))
		}
		if c, a := recoverOn(sg.hashing, dec, sg.msg, c2); c != 0 || !bytes.Equal(a, signer) {
			noteFail("a valid signature presented in one of the three V conventions did not recover the signer's address (sequence on one object)", sigFields(sig{v155(p, c2), R, S}, sg.msg, c2))
		}
		if c, a := recoverOn(sg.hashing, dec, sg.msg, c1); c == 0 && bytes.Equal(a, signer) && !explainedByTruncation(dec.V, c1) {
			noteFail("a foreign V / tampered signature / different message recovered the signer's address (sequence on one object)", sigFields(sig{v155(p, c2), R, S}, sg.msg, c1))
		}
		g.st.Evaluations += 3
	} else {
		noteFail("DecodeCompactRSV must accept exactly the 65-byte inputs", map[string]interface{}{"input": hx(o1)})
	}
	g.st.Hit("sequence/object")
}

// ---- concurrent section ----

// concurrent: the serial results of signing and recovery must be reproduced when 8 goroutines work on the
// same KeyPair and SignatureData objects at the same time.
func concurrent(g *gen, sgs []seqSigned, rounds int) {
	type task struct {
		sg     seqSigned
		sd     *secp256k1.SignatureData // shared between the goroutines, only read by the implementation
		chain  int64
		expect []byte
	}
	var tasks []task
	for i, sg := range sgs {
		p := sg.s.V.Int64() - 27
		if p != 0 && p != 1 {
			continue
		}
		c := chains[i%len(chains)]
		v := validV(p, c)[i%3]
		tasks = append(tasks, task{sg, &secp256k1.SignatureData{V: cp(v), R: cp(sg.s.R), S: cp(sg.s.S)}, c, sg.kp.Address[:]})
		if len(tasks) >= 48 {
			break
		}
	}
	if len(tasks) == 0 {
		return
	}
	const workers = 8
	var wg sync.WaitGroup
	for w := 0; w < workers; w++ {
		wg.Add(1)
		go func(w int) {
			defer wg.Done()
			for round := 0; round < rounds; round++ {
				for j := range tasks {
					t := tasks[(j*(2*w+1)+w+round)%len(tasks)]
					cls, a := recoverOn(t.sg.hashing, t.sd, t.sg.msg, t.chain)
					if cls != 0 || !bytes.Equal(a, t.expect) {
						f := sigFields(sig{t.sd.V, t.sd.R, t.sd.S}, t.sg.msg, t.chain)
						f["concurrent"] = clsName(cls) + " " + hx(a)
						f["signer"] = hx(t.expect)
						noteFail("Recover/RecoverDirect of a valid signature, run from 8 goroutines at once, did not return the signer's address", f)
					}
					if (j+round)%4 == 0 {
						c2, s2 := doSignRaw(t.sg.hashing, t.sg.kp, t.sg.msg)
						if c2 != 0 || s2.V.Cmp(t.sg.s.V) != 0 || s2.R.Cmp(t.sg.s.R) != 0 || s2.S.Cmp(t.sg.s.S) != 0 {
							noteFail("Sign/SignDirect run from 8 goroutines at once differs from the serial result", map[string]interface{}{"private_key": hx(t.sg.kp.PrivateKeyBytes()), "message": hx(t.sg.msg), "serial_R": t.sg.s.R.String(), "concurrent_R": s2.R.String()})
						}
					}
				}
			}
		}(w)
	}
	wg.Wait()
	g.st.Distribution["concurrent/recover-calls"] += workers * rounds * len(tasks)
	g.st.Evaluations += workers * rounds * len(tasks)
}

// ---- chain id sweep ----

// chainSweep: the property quantifies over all chain ids in [0, 2^53]; the Coq cases use a dozen of them.
// Here one signature is presented in the EIP-155 form for every 2^k-1, 2^k, 2^k+1 (k <= 53) and for random
// 53-bit chain ids: with the same chain id it must recover the signer; with the chain id altered in one bit
// (or +1) it must not, unless the two chain ids are congruent modulo 128 (known finding
// C05/v-truncated-to-byte; theorem C05_eip155_wrong_chain states exactly this for the model).
func chainSweep(g *gen, sg seqSigned, random int) {
	p := sg.s.V.Int64() - 27
	if p != 0 && p != 1 {
		return
	}
	signer := sg.kp.Address[:]
	const top = int64(1) << 53
	var cs []int64
	for k := uint(0); k <= 53; k++ {
		for _, d := range []int64{-1, 0, 1} {
			if c := int64(1)<<k + d; c >= 0 && c <= top {
				cs = append(cs, c)
			}
		}
	}
	for i := 0; i < random; i++ {
		cs = append(cs, int64(g.r.U64()>>11))
	}
	for i, c := range cs {
		v := validV(p, c)[2]
		s := sig{v, sg.s.R, sg.s.S}
		cls, a := doRecover(sg.hashing, s, sg.msg, c)
		if cls != 0 || !bytes.Equal(a, signer) {
			f := sigFields(s, sg.msg, c)
			f["signer"], f["hashing"] = hx(signer), sg.hashing
			noteFail("a valid signature presented in one of the three V conventions did not recover the signer's address (chain id sweep)", f)
		}
		// 0/1 and 27/28 do not depend on the chain id
		if i%16 == 0 {
			for _, v2 := range []*big.Int{bi(p), bi(27 + p)} {
				if cls, a := doRecover(sg.hashing, sig{v2, sg.s.R, sg.s.S}, sg.msg, c); cls != 0 || !bytes.Equal(a, signer) {
					f := sigFields(sig{v2, sg.s.R, sg.s.S}, sg.msg, c)
					f["signer"], f["hashing"] = hx(signer), sg.hashing
					noteFail("a valid signature presented in one of the three V conventions did not recover the signer's address (chain id sweep)", f)
				}
				g.st.Evaluations++
			}
		}
		other := c + 1
		if i%2 == 1 {
			b := g.r.Intn(7) // the bits that survive the byte() truncation of 2*chainId
			if i%6 == 1 {
				b = g.r.Intn(53)
			}
			other = c ^ (int64(1) << uint(b))
		}
		if other > top || other < 0 {
			other = c - 1
		}
		if other < 0 {
			other = 1
		}
		cls2, a2 := doRecover(sg.hashing, s, sg.msg, other)
		g.st.Evaluations += 2
		if cls2 == 0 && bytes.Equal(a2, signer) {
			if (c-other)%128 == 0 {
				g.st.Hit("chain-sweep/wrong-chain/known-finding-region")
			} else {
				f := sigFields(s, sg.msg, other)
				f["signer"], f["hashing"], f["V_is_for_chain"] = hx(signer), sg.hashing, c
				noteFail("a foreign V / tampered signature / different message recovered the signer's address (EIP-155 V of another chain id)", f)
			}
		} else {
			g.st.Hit("chain-sweep/wrong-chain/" + clsName(cls2))
		}
		g.st.Hit("chain-sweep/same-chain/" + clsName(cls))
	}
	g.distinct(fmt.Sprintf("chain-sweep:%s", sg.s.R))
}
