// Harness for C05 (pkg/secp256k1: sign / recover under every V convention, compact codec, address
// derivation).  Runs the implementation under recover() on generated keys, digests, messages,
// signatures, chain ids and V values and writes Coq case files evaluated by Secp/Run.v against the
// model instantiated with an independent executable secp256k1 and Keccak-256.
package main

import (
	"bytes"
	"context"
	"encoding/hex"
	"encoding/json"
	"flag"
	"fmt"
	"math/big"
	"os"
	"path/filepath"
	"sort"
	"strings"

	dcr "github.com/decred/dcrd/dcrec/secp256k1/v4"
	"github.com/hyperledger/firefly-signer/pkg/ethtypes"
	"github.com/hyperledger/firefly-signer/pkg/secp256k1"
	"golang.org/x/crypto/sha3"
	"verifharness/cv"
)

const knownKeyTrunc = "C05/v-truncated-to-byte"

// the EIP-155 form of V pushed through the 65-byte compact form keeps only byte(V); when that byte is 0 or 1
// (chain id = 110 mod 128 with odd parity, = 111 mod 128 with even parity) the decoded signature is read as the
// yParity form of the OPPOSITE parity and recovers another address (theorem C05_compact_eip155_wrong_parity_refuted)
const knownKeyCompact = "C05/compact-eip155-byte-0-1"

var (
	curveN, _ = new(big.Int).SetString("FFFFFFFFFFFFFFFFFFFFFFFFFFFFFFFEBAAEDCE6AF48A03BBFD25E8CD0364141", 16)
	two256    = new(big.Int).Lsh(big.NewInt(1), 256)
	two64     = new(big.Int).Lsh(big.NewInt(1), 64)
	two63     = new(big.Int).Lsh(big.NewInt(1), 63)
)

func bi(x int64) *big.Int         { return big.NewInt(x) }
func add(a, b *big.Int) *big.Int  { return new(big.Int).Add(a, b) }
func sub(a, b *big.Int) *big.Int  { return new(big.Int).Sub(a, b) }
func cp(a *big.Int) *big.Int      { return new(big.Int).Set(a) }
func fromBytes(b []byte) *big.Int { return new(big.Int).SetBytes(b) }
func be32(a *big.Int) []byte      { return a.FillBytes(make([]byte, 32)) }
func keccak(b []byte) []byte      { h := sha3.NewLegacyKeccak256(); h.Write(b); return h.Sum(nil) }
func hx(b []byte) string          { return hex.EncodeToString(b) }
func unhx(s string) []byte        { b, _ := hex.DecodeString(s); return b }
func bigOf(s string) *big.Int     { z, _ := new(big.Int).SetString(s, 10); return z }
func zl(z *big.Int) string {
	if z.Sign() < 0 {
		return "(- 0x" + new(big.Int).Neg(z).Text(16) + ")%Z"
	}
	return "0x" + z.Text(16) + "%Z"
}
func boolc(b bool) string {
	if b {
		return "true"
	}
	return "false"
}

// ---- running the implementation under recover() ----

type sig struct{ V, R, S *big.Int }

func (s sig) data() *secp256k1.SignatureData {
	return &secp256k1.SignatureData{V: cp(s.V), R: cp(s.R), S: cp(s.S)}
}

func doRecover(hashing bool, s sig, msg []byte, chain int64) (cls int, addr []byte) {
	defer func() {
		if r := recover(); r != nil {
			cls, addr = 2, nil
		}
	}()
	sd := s.data()
	m := append([]byte{}, msg...) // the implementation gets its own buffer, overwritten after the call
	var err error
	var x *ethtypes.Address0xHex
	if hashing {
		x, err = sd.Recover(m, chain)
	} else {
		x, err = sd.RecoverDirect(m, chain)
	}
	if !bytes.Equal(m, msg) {
		noteFail("Recover/RecoverDirect modified the message it was given", sigFields(s, msg, chain))
	}
	scribble(m)
	if sd.V.Cmp(s.V) != 0 || sd.R.Cmp(s.R) != 0 || sd.S.Cmp(s.S) != 0 {
		f := sigFields(s, msg, chain)
		f["after_V"], f["after_R"], f["after_S"] = sd.V.String(), sd.R.String(), sd.S.String()
		noteFail("Recover/RecoverDirect modified the signature it was called on", f)
	}
	if err != nil || x == nil {
		return 1, nil
	}
	addr = append([]byte{}, x[:]...)
	retainAddr(x, sigFields(s, msg, chain))
	return 0, addr
}

func doSign(hashing bool, kp *secp256k1.KeyPair, msg []byte) (cls int, s sig) {
	defer func() {
		if r := recover(); r != nil {
			cls = 2
		}
	}()
	var sd *secp256k1.SignatureData
	var err error
	if keyGone(kp) {
		return 1, sig{bi(0), bi(0), bi(0)}
	}
	m := append([]byte{}, msg...)
	if hashing {
		sd, err = kp.Sign(m)
	} else {
		sd, err = kp.SignDirect(m)
	}
	if !bytes.Equal(m, msg) {
		noteFail("Sign/SignDirect modified the message it was given", map[string]interface{}{"message": hx(msg)})
	}
	scribble(m)
	if err != nil || sd == nil {
		return 1, sig{bi(0), bi(0), bi(0)}
	}
	retainSig(sd, kp, msg, hashing)
	return 0, sig{cp(sd.V), cp(sd.R), cp(sd.S)}
}

func doCompact(s sig) (cls int, out []byte) {
	defer func() {
		if r := recover(); r != nil {
			cls, out = 2, nil
		}
	}()
	sd := s.data()
	out = sd.CompactRSV()
	if sd.V.Cmp(s.V) != 0 || sd.R.Cmp(s.R) != 0 || sd.S.Cmp(s.S) != 0 {
		noteFail("CompactRSV modified the signature it was called on", sigFields(s, nil, 0))
	}
	retainBytes(out, "CompactRSV")
	return 0, append([]byte{}, out...)
}

func doDecode(in []byte) (cls int, s sig) {
	defer func() {
		if r := recover(); r != nil {
			cls = 2
		}
	}()
	buf := append([]byte{}, in...)
	sd, err := secp256k1.DecodeCompactRSV(context.Background(), buf)
	if !bytes.Equal(buf, in) {
		noteFail("DecodeCompactRSV modified its input", map[string]interface{}{"input": hx(in)})
	}
	scribble(buf) // the result must not share the input buffer
	if err != nil {
		return 1, sig{bi(0), bi(0), bi(0)}
	}
	retainSig(sd, nil, nil, false)
	return 0, sig{cp(sd.V), cp(sd.R), cp(sd.S)}
}

// ---- case descriptions (replayable) ----

type desc struct {
	Kind    string  `json:"kind"`
	Key     string  `json:"key,omitempty"` // known-finding classifier
	What    string  `json:"what,omitempty"`
	Hashing bool    `json:"hashing,omitempty"`
	PrivKey string  `json:"private_key,omitempty"`
	Msg     string  `json:"message,omitempty"`
	V       string  `json:"V,omitempty"`
	R       string  `json:"R,omitempty"`
	S       string  `json:"S,omitempty"`
	Chain   int64   `json:"chain_id,omitempty"`
	Expect  int     `json:"expect,omitempty"`
	Signer  string  `json:"signer,omitempty"`
	Input   string  `json:"input,omitempty"`
	Lo      int64   `json:"lo,omitempty"`
	Hi      int64   `json:"hi,omitempty"`
	Oracle  bool    `json:"oracle,omitempty"`
	Impl    string  `json:"implementation,omitempty"`
	Offend  []int64 `json:"accepted_foreign_V,omitempty"`
}

type gen struct {
	w    *cv.Writer
	st   *cv.Stats
	seen map[string]bool
	r    *cv.Rand
}

func (g *gen) distinct(k string) {
	if !g.seen[k] {
		g.seen[k] = true
		g.st.Distinct++
	}
}

func (g *gen) sample(d desc) {
	if len(g.st.Samples) < 40 && g.r.Intn(6) == 0 || len(g.st.Samples) < 6 {
		g.st.Samples = append(g.st.Samples, d)
	}
}

func clsName(c int) string { return []string{"ok", "err", "panic"}[c] }

func (g *gen) addKey(keyBytes []byte, what string) *secp256k1.KeyPair {
	in := append([]byte{}, keyBytes...)
	kp := secp256k1.KeyPairFromBytes(in)
	scribble(in) // the key pair must not share the caller's buffer
	retainKP(kp, keyBytes)
	retainBytes(kp.PublicKeyBytes(), "PublicKeyBytes")
	retainBytes(kp.PrivateKeyBytes(), "PrivateKeyBytes")
	d := desc{Kind: "key", PrivKey: hx(keyBytes), What: what, Impl: kp.Address.String()}
	g.w.Add(fmt.Sprintf("CKey %s %s %s %s", cv.CoqBytes(keyBytes), cv.CoqBytes(kp.Address[:]), cv.CoqBytes(kp.PublicKeyBytes()), cv.CoqBytes(kp.PrivateKeyBytes())), d)
	g.st.Hit("key/" + what)
	g.st.Evaluations++
	g.distinct("key:" + hx(keyBytes))
	g.sample(d)
	// implementation-only oracle, independent of Coq: address = last 20 bytes of keccak256(pub[1:])
	if !bytes.Equal(keccak(kp.PublicKeyBytes())[12:], kp.Address[:]) {
		g.st.ImplFailures = append(g.st.ImplFailures, map[string]interface{}{"what": "address is not the last 20 bytes of keccak256 of the public key", "key": "", "private_key": hx(keyBytes)})
	}
	return kp
}

func (g *gen) addSign(hashing bool, keyBytes []byte, kp *secp256k1.KeyPair, msg []byte, what string) (int, sig) {
	cls, s := doSign(hashing, kp, msg)
	digest := msg
	if hashing {
		digest = keccak(msg)
	}
	// the RFC 6979 nonce, obtained from the library directly (iteration 0)
	k := dcr.NonceRFC6979(kp.PrivateKeyBytes(), digest, nil, nil, 0)
	kb := k.Bytes()
	d := desc{Kind: "sign", Hashing: hashing, PrivKey: hx(keyBytes), Msg: hx(msg), What: what, V: s.V.String(), R: s.R.String(), S: s.S.String(), Impl: clsName(cls)}
	if len(msg) > 200 {
		d.Msg = hx(msg[:32]) + fmt.Sprintf("...(%d bytes)", len(msg))
	}
	g.w.Add(fmt.Sprintf("CSign %s %s %s %s %d%%nat %s %s %s", boolc(hashing), cv.CoqBytes(keyBytes), cv.Compress(msg).Coq(), zl(fromBytes(kb[:])), cls, zl(s.V), zl(s.R), zl(s.S)), d)
	g.st.Hit("sign/" + what)
	if hashing {
		g.st.Hit(fmt.Sprintf("sign/msglen/%s", lenBucket(len(msg))))
	}
	if cls == 0 {
		g.st.Hit("sign/V=" + s.V.String())
		g.st.Hit(fmt.Sprintf("sign/R-leading-zero-bytes/%d", 32-len(s.R.Bytes())))
		g.st.Hit(fmt.Sprintf("sign/S-leading-zero-bytes/%d", 32-len(s.S.Bytes())))
	}
	g.st.Evaluations++
	g.distinct("sign:" + hx(keyBytes) + ":" + hx(keccak(msg)) + boolc(hashing))
	g.sample(d)
	return cls, s
}

func lenBucket(n int) string {
	switch {
	case n == 0:
		return "0"
	case n < 32:
		return "1-31"
	case n == 32:
		return "32"
	case n < 136:
		return "33-135"
	case n <= 137:
		return "136-137"
	case n < 4096:
		return "138-4095"
	default:
		return "4096"
	}
}

// explainedByTruncation: V fits int64, is none of the legitimate values, and is congruent mod 256 to the
// EIP-155 form for this chain id -- the region of the known finding (getVNormalized compares after byte()).
func explainedByTruncation(v *big.Int, chain int64) bool {
	if !v.IsInt64() {
		return false
	}
	for p := int64(0); p < 2; p++ {
		for _, x := range validV(p, chain) {
			if x.Cmp(v) == 0 {
				return false
			}
		}
	}
	for p := int64(0); p < 2; p++ {
		if new(big.Int).Mod(sub(v, validV(p, chain)[2]), bi(256)).Sign() == 0 {
			return true
		}
	}
	return false
}

// expect: 0 none, 1 must return signer, 2 must not return signer
func (g *gen) addRecover(hashing bool, s sig, msg []byte, chain int64, expect int, signer []byte, what string, knownKey string) (int, []byte) {
	cls, addr := doRecover(hashing, s, msg, chain)
	d := desc{Kind: "recover", Hashing: hashing, Msg: hx(msg), V: s.V.String(), R: s.R.String(), S: s.S.String(), Chain: chain, Expect: expect, Signer: hx(signer), What: what, Impl: clsName(cls) + " " + hx(addr)}
	if len(msg) > 200 {
		d.Msg = hx(msg[:32]) + fmt.Sprintf("...(%d bytes)", len(msg))
	}
	isSigner := cls == 0 && bytes.Equal(addr, signer)
	if expect == 2 && isSigner && explainedByTruncation(s.V, chain) {
		d.Key = knownKeyTrunc
	}
	if expect == 1 && !isSigner && knownKey == knownKeyCompact {
		// only where the theorem says so: the V byte that survived the compact form is 0 or 1
		if s.V.Sign() >= 0 && s.V.Cmp(bi(1)) <= 0 {
			d.Key = knownKeyCompact
		}
	}
	g.w.Add(fmt.Sprintf("CRecover %s %s %s %s %s %s %d%%nat %s %d%%N %s", boolc(hashing), zl(s.V), zl(s.R), zl(s.S), cv.Compress(msg).Coq(), zl(bi(chain)), cls, cv.CoqBytes(addr), expect, cv.CoqBytes(signer)), d)
	g.st.Hit("recover/" + what + "/" + clsName(cls))
	g.st.Evaluations++
	g.distinct(fmt.Sprintf("rec:%s:%s:%s:%s:%d:%v", s.V, s.R, s.S, hx(keccak(msg)), chain, hashing))
	g.sample(d)
	return cls, addr
}

func (g *gen) addCompact(s sig, what string) {
	cls, out := doCompact(s)
	d := desc{Kind: "compact", V: s.V.String(), R: s.R.String(), S: s.S.String(), What: what, Impl: clsName(cls) + " " + hx(out)}
	g.w.Add(fmt.Sprintf("CCompact %s %s %s %d%%nat %s", zl(s.V), zl(s.R), zl(s.S), cls, cv.CoqBytes(out)), d)
	g.st.Hit("compact/" + what + "/" + clsName(cls))
	g.st.Evaluations++
	g.distinct(fmt.Sprintf("compact:%s:%s:%s", s.V, s.R, s.S))
	// round-trip oracle on the implementation alone, on the domain where the 65-byte form can hold the value
	if s.R.Sign() >= 0 && s.S.Sign() >= 0 && s.R.Cmp(two256) < 0 && s.S.Cmp(two256) < 0 && s.V.Sign() >= 0 && s.V.Cmp(bi(256)) < 0 {
		bad := ""
		if cls != 0 || len(out) != 65 {
			bad = "CompactRSV failed or is not 65 bytes"
		} else {
			c2, s2 := doDecode(out)
			if c2 != 0 || s2.V.Cmp(s.V) != 0 || s2.R.Cmp(s.R) != 0 || s2.S.Cmp(s.S) != 0 {
				bad = "DecodeCompactRSV(CompactRSV(sig)) differs from sig"
			} else if !bytes.Equal(out[0:32], be32(s.R)) || !bytes.Equal(out[32:64], be32(s.S)) || out[64] != byte(s.V.Int64()) {
				bad = "CompactRSV is not R(32, big-endian) || S(32) || V(1)"
			}
		}
		if bad != "" {
			g.st.ImplFailures = append(g.st.ImplFailures, map[string]interface{}{"what": bad, "key": "", "V": s.V.String(), "R": s.R.String(), "S": s.S.String()})
		}
	}
}

func (g *gen) addDecode(in []byte, what string) {
	cls, s := doDecode(in)
	d := desc{Kind: "decode", Input: hx(in), What: what, Impl: clsName(cls)}
	g.w.Add(fmt.Sprintf("CDecode %s %d%%nat %s %s %s", cv.Compress(in).Coq(), cls, zl(s.V), zl(s.R), zl(s.S)), d)
	g.st.Hit("decode/" + what + "/" + clsName(cls))
	g.st.Evaluations++
	g.distinct("decode:" + hx(in))
	if (len(in) != 65) != (cls == 1) || cls == 2 {
		g.st.ImplFailures = append(g.st.ImplFailures, map[string]interface{}{"what": "DecodeCompactRSV must accept exactly the 65-byte inputs", "key": "", "input": hx(in)})
	}
}

func (g *gen) addUpdate(v *big.Int, chain int64) {
	s1 := sig{cp(v), bi(1), bi(1)}.data()
	s1.UpdateEIP155(chain)
	s2 := sig{cp(v), bi(1), bi(1)}.data()
	s2.UpdateEIP2930()
	d := desc{Kind: "update", V: v.String(), Chain: chain}
	g.w.Add(fmt.Sprintf("CUpdate %s %s %s %s", zl(v), zl(bi(chain)), zl(s1.V), zl(s2.V)), d)
	g.st.Hit("update")
	g.st.Evaluations++
	g.distinct(fmt.Sprintf("update:%s:%d", v, chain))
}

func (g *gen) addHash(msg []byte) {
	g.w.Add(fmt.Sprintf("CHash %s %s", cv.Compress(msg).Coq(), cv.CoqBytes(keccak(msg))), desc{Kind: "hash", Msg: hx(msg)})
	g.st.Hit("keccak-validation")
}

// validV lists the V values that legitimately denote parity p for chain c.
func validV(p int64, chain int64) []*big.Int {
	return []*big.Int{bi(27 + p), bi(p), add(add(bi(35+p), bi(chain)), bi(chain))}
}

// sweep runs RecoverDirect for every V in [lo, hi] and writes an oracle case and a correspondence case.
func (g *gen) addSweep(s sig, msg []byte, chain int64, lo, hi int64, signer []byte, what string) {
	p := s.V.Int64() - 27
	valid := validV(p, chain)
	type acc struct {
		v   int64
		idx int
	}
	var accepted []acc
	var addrs [][]byte
	var offenders []int64
	unexplained := false
	for v := lo; v <= hi; v++ {
		cls, a := doRecover(false, sig{bi(v), s.R, s.S}, msg, chain)
		g.st.Evaluations++
		if cls == 2 {
			g.st.ImplFailures = append(g.st.ImplFailures, map[string]interface{}{"what": "RecoverDirect panicked", "key": "", "V": v, "R": s.R.String(), "S": s.S.String(), "message": hx(msg), "chain_id": chain})
			continue
		}
		if cls != 0 {
			continue
		}
		idx := -1
		for i, x := range addrs {
			if bytes.Equal(x, a) {
				idx = i
			}
		}
		if idx < 0 {
			addrs = append(addrs, a)
			idx = len(addrs) - 1
		}
		accepted = append(accepted, acc{v, idx})
		isValid := false
		for _, x := range valid {
			if x.Cmp(bi(v)) == 0 {
				isValid = true
			}
		}
		if !isValid && bytes.Equal(a, signer) {
			offenders = append(offenders, v)
			// explained by the known finding iff V is congruent mod 256 to the chain-id form for this parity
			diff := sub(bi(v), valid[2])
			if new(big.Int).Mod(diff, bi(256)).Sign() != 0 {
				unexplained = true
			}
		}
	}
	var ac, ad, vl []string
	for _, a := range accepted {
		ac = append(ac, fmt.Sprintf("(%d%%Z, %d%%nat)", a.v, a.idx))
	}
	for _, a := range addrs {
		ad = append(ad, cv.CoqBytes(a))
	}
	for _, x := range valid {
		vl = append(vl, zl(x))
	}
	mk := func(oracle bool) string {
		return fmt.Sprintf("CSweep %s %s %s %s %s %d%%Z %d%%Z [%s] [%s] [%s] %s", boolc(oracle), zl(s.R), zl(s.S), cv.CoqBytes(msg), zl(bi(chain)), lo, hi,
			strings.Join(ac, "; "), strings.Join(ad, "; "), strings.Join(vl, "; "), cv.CoqBytes(signer))
	}
	d := desc{Kind: "sweep", Msg: hx(msg), R: s.R.String(), S: s.S.String(), V: s.V.String(), Chain: chain, Lo: lo, Hi: hi, Signer: hx(signer), What: what, Oracle: true}
	if len(offenders) > 0 {
		d.Offend = offenders
		if len(offenders) > 8 {
			d.Offend = offenders[:8]
		}
		if !unexplained {
			d.Key = knownKeyTrunc
		}
	}
	g.w.Add(mk(true), d)
	d2 := d
	d2.Oracle = false
	d2.Key = ""
	g.w.Add(mk(false), d2)
	g.st.Hit("sweep/" + what)
	g.st.Distribution["sweep/accepted-V"] += len(accepted)
	g.st.Distribution["sweep/foreign-V-recovering-signer"] += len(offenders)
	g.distinct(fmt.Sprintf("sweep:%s:%d:%d", s.R, chain, lo))
}

func randKey(r *cv.Rand) []byte {
	for {
		b := r.Bytes(32)
		z := fromBytes(b)
		if z.Sign() > 0 && z.Cmp(curveN) < 0 {
			return b
		}
	}
}

var chains = []int64{0, 1, 5, 127, 128, 1337, 1001, 1 << 31, 1<<31 - 1, 1 << 32, 1<<53 - 1, 1 << 53}

func main() {
	out := flag.String("out", "", "output directory")
	tier := flag.String("tier", "quick", "quick|thorough")
	replay := flag.String("replay", "", "replay file")
	flag.Parse()
	if *out == "" {
		fmt.Fprintln(os.Stderr, "need -out")
		os.Exit(2)
	}
	os.MkdirAll(*out, 0o755)
	header := "From Coq Require Import String List ZArith NArith Uint63.\nFrom FFS Require Import Base.Bytes Base.Lit Secp.Run.\nImport ListNotations.\nOpen Scope string_scope. Open Scope N_scope."
	st := cv.NewStats()
	st.Rule = "distinct (function, input) tuples run on the implementation; every V of a sweep counts as an evaluation, a sweep chunk as one distinct case"
	shards := 16
	if *replay != "" {
		shards = 1
	}
	g := &gen{w: cv.NewWriter(*out, "C05", header, "case", "mismatches", shards), st: st, seen: map[string]bool{}, r: cv.NewRand(5)}

	if *replay != "" {
		raw, err := os.ReadFile(*replay)
		if err != nil {
			panic(err)
		}
		var rp struct {
			Case desc `json:"case"`
		}
		json.Unmarshal(raw, &rp)
		c := rp.Case
		if c.Kind == "" { // Go-side oracle failures are flat objects
			fmt.Println("replay: Go-side oracle record:", string(raw))
			return
		}
		s := sig{bigOf(c.V), bigOf(c.R), bigOf(c.S)}
		switch c.Kind {
		case "key":
			kp := g.addKey(unhx(c.PrivKey), "replay")
			fmt.Println("implementation: address", kp.Address.String(), "public key", hx(kp.PublicKeyBytes()))
		case "sign":
			if strings.Contains(c.Msg, "...") {
				fmt.Println("replay: message too long to be recorded literally")
				return
			}
			kp := secp256k1.KeyPairFromBytes(unhx(c.PrivKey))
			cls, sg := g.addSign(c.Hashing, unhx(c.PrivKey), kp, unhx(c.Msg), "replay")
			fmt.Println("implementation:", clsName(cls), "V", sg.V, "R", sg.R, "S", sg.S)
		case "recover":
			if strings.Contains(c.Msg, "...") {
				fmt.Println("replay: message too long to be recorded literally")
				return
			}
			cls, a := g.addRecover(c.Hashing, s, unhx(c.Msg), c.Chain, c.Expect, unhx(c.Signer), "replay", c.Key)
			fmt.Println("implementation:", clsName(cls), hx(a), " signer:", c.Signer, " expectation:", []string{"none", "must be the signer", "must not be the signer"}[c.Expect])
		case "compact":
			g.addCompact(s, "replay")
		case "decode":
			g.addDecode(unhx(c.Input), "replay")
		case "update":
			g.addUpdate(s.V, c.Chain)
		case "sweep":
			g.addSweep(s, unhx(c.Msg), c.Chain, c.Lo, c.Hi, unhx(c.Signer), "replay")
			fmt.Println("implementation: sweep of V in", c.Lo, "..", c.Hi, "re-run;", st.Distribution)
		}
		g.w.Flush()
		st.ImplFailures = append(st.ImplFailures, failures...)
		st.Write(filepath.Join(*out, "stats_C05.json"))
		return
	}

	thorough := *tier == "thorough"
	r := g.r
	scale := 1
	if thorough {
		scale = 4
	}

	// ---- Keccak validation (Base.Keccak vs x/crypto) ----
	for _, n := range []int{0, 1, 32, 64, 135, 136, 137, 272} {
		g.addHash(r.Bytes(n))
	}

	// ---- keys ----
	type key struct {
		b    []byte
		what string
	}
	nm := func(d int64) []byte { return be32(sub(curveN, bi(d))) }
	lead := func(k int) []byte { b := randKey(r); copy(b, make([]byte, k)); b[k] |= 1; return b }
	keys := []key{
		{be32(bi(1)), "one"}, {be32(bi(2)), "two"}, {nm(1), "n-1"}, {nm(2), "n-2"},
		{lead(1), "leading-zero-1"}, {lead(2), "leading-zero-2"}, {lead(3), "leading-zero-3"}, {lead(16), "leading-zero-16"},
		{[]byte{0x01}, "short-1-byte"}, {append([]byte{}, randKey(r)[:20]...), "short-20-bytes"},
		{be32(new(big.Int).Rsh(curveN, 1)), "half-n"}, {be32(add(new(big.Int).Rsh(curveN, 1), bi(1))), "half-n+1"},
	}
	nrand := 8 * scale
	for i := 0; i < nrand; i++ {
		keys = append(keys, key{randKey(r), "random"})
	}
	// Keys outside [1, n-1] (0, n, n+1, byte strings longer than 32 bytes), digests that are not 32 bytes
	// long, CompactRSV of values that do not fit and Update* on a V that is not 27/28/0/1 are outside the
	// property's quantifier: a change of behaviour there is not a violation, so they are not generated
	// (the model covers them; they were compared once while the model was written).
	outside := []key{}
	// Go-side sweep of the address derivation over many keys (independent point arithmetic + keccak); it also
	// finds keys whose public key has a leading zero byte in X / in Y, which go through the model as well
	sweepCount := 3000
	if thorough {
		sweepCount = 40000
	}
	xlz, ylz := keySweep(g, sweepCount)
	if xlz == nil {
		xlz = be32(bi(1417)) // X of 1417*G starts with a zero byte
	}
	pubLZ := []key{{xlz, "pub-X-leading-zero"}}
	if ylz != nil {
		pubLZ = append(pubLZ, key{ylz, "pub-Y-leading-zero"})
	}
	keys = append(keys, pubLZ...)
	kps := map[string]*secp256k1.KeyPair{}
	for _, k := range keys {
		kps[hx(k.b)] = g.addKey(k.b, k.what)
	}
	for _, k := range outside {
		kps[hx(k.b)] = g.addKey(k.b, "outside/"+k.what)
	}

	// ---- digests for SignDirect ----
	digests := [][]byte{
		make([]byte, 32), be32(bi(1)), be32(curveN), be32(add(curveN, bi(1))), be32(sub(curveN, bi(1))), be32(sub(two256, bi(1))),
	}

	type signed struct {
		keyB    []byte
		kp      *secp256k1.KeyPair
		msg     []byte // what was passed to Sign/SignDirect
		hashing bool
		s       sig
	}
	var sigs []signed
	signIt := func(hashing bool, k key, msg []byte, what string) {
		kp := kps[hx(k.b)]
		cls, s := g.addSign(hashing, k.b, kp, msg, what)
		if cls == 0 {
			sigs = append(sigs, signed{k.b, kp, msg, hashing, s})
		}
	}
	// every boundary key on a random digest, every boundary digest on a random key
	for i, k := range keys {
		if i < 12 {
			signIt(false, k, r.Bytes(32), "direct/key="+k.what)
		}
	}
	for i, dg := range digests {
		signIt(false, keys[12+i%nrand], dg, fmt.Sprintf("direct/boundary-digest-%d", i))
	}
	for i, k := range pubLZ {
		signIt(i%2 == 1, k, r.Bytes(32), "key="+k.what)
	}
	for i := 0; i < 3*scale*scale; i++ {
		signIt(false, keys[r.Intn(len(keys))], r.Bytes(32), "direct/random")
	}
	// the hashing entry point: message lengths 0 .. 4 KiB
	msgLens := []int{0, 1, 32, 135, 136, 137, 4096}
	if thorough {
		msgLens = []int{0, 1, 31, 32, 33, 135, 136, 137, 271, 272, 273, 1000, 4095, 4096}
	}
	for _, n := range msgLens {
		signIt(true, keys[r.Intn(len(keys))], r.Bytes(n), "hashing")
	}
	for i := 0; i < 2*scale*scale; i++ {
		signIt(true, keys[r.Intn(len(keys))], r.Bytes(r.Intn(4097)), "hashing")
	}
	// signatures whose R or S has leading zero bytes (FillBytes / SetBytes padding): search
	{
		kp := kps[hx(keys[12].b)]
		found := map[string]bool{}
		want := []string{"R1", "S1", "R2", "S2"}
		budget := 400000
		if thorough {
			budget = 3000000
		}
		for i := 0; i < budget && len(found) < len(want); i++ {
			dg := keccak([]byte(fmt.Sprintf("lz-%d-%d", cv.Seed(), i)))
			sd, err := kp.SignDirect(dg)
			if err != nil {
				continue
			}
			lr, ls := 32-len(sd.R.Bytes()), 32-len(sd.S.Bytes())
			tag := ""
			if lr >= 2 && !found["R2"] {
				tag = "R2"
			} else if ls >= 2 && !found["S2"] {
				tag = "S2"
			} else if lr == 1 && !found["R1"] {
				tag = "R1"
			} else if ls == 1 && !found["S1"] {
				tag = "S1"
			}
			if tag != "" {
				found[tag] = true
				signIt(false, keys[12], dg, "direct/leading-zero-"+tag)
			}
		}
	}
	// outside the quantifier: keys 0, n, n+1, long key bytes (correspondence only)
	for _, k := range outside {
		signIt(false, k, r.Bytes(32), "outside/"+k.what)
	}

	// ---- recovery: conventions, foreign V, tampering ----
	inQuant := func(s signed) bool {
		z := fromBytes(s.kp.PrivateKeyBytes())
		return z.Sign() > 0
	}
	for i, sg := range sigs {
		if !inQuant(sg) {
			continue
		}
		signer := sg.kp.Address[:]
		p := sg.s.V.Int64() - 27
		if p != 0 && p != 1 {
			continue // reported by the CSign oracle already
		}
		R, S, V := sg.s.R, sg.s.S, sg.s.V
		h := sg.hashing
		c1 := chains[i%len(chains)]
		c2 := chains[(i*7+3)%len(chains)]
		rc := int64(r.U64() >> 11) // random chain id in [0, 2^53)
		// the three conventions
		// (quick tier: boundary keys/digests get all three, the others rotate)
		all3 := i < 12 || thorough
		if all3 || i%3 == 0 {
			g.addRecover(h, sig{V, R, S}, sg.msg, c1, 1, signer, "convention-27/28", "")
		}
		if all3 || i%3 == 1 {
			g.addRecover(h, sig{bi(p), R, S}, sg.msg, c2, 1, signer, "convention-0/1", "")
		}
		if all3 || i%3 == 2 {
			g.addRecover(h, sig{validV(p, c1)[2], R, S}, sg.msg, c1, 1, signer, "convention-eip155", "")
		}
		if i%5 == 0 || thorough {
			g.addRecover(h, sig{validV(p, rc)[2], R, S}, sg.msg, rc, 1, signer, "convention-eip155", "")
		}
		// through the Update* methods, as a transaction signer does
		if i%3 == 0 || thorough {
			sd := sig{V, R, S}.data()
			sd.UpdateEIP155(c2)
			g.addRecover(h, sig{sd.V, sd.R, sd.S}, sg.msg, c2, 1, signer, "via-UpdateEIP155", "")
		}
		if i%3 == 1 || thorough {
			sd := sig{V, R, S}.data()
			sd.UpdateEIP2930()
			g.addRecover(h, sig{sd.V, sd.R, sd.S}, sg.msg, c2, 1, signer, "via-UpdateEIP2930", "")
		}
		// through the compact codec: the V byte survives for the 27/28 and 0/1 conventions
		if cls, outb := doCompact(sig{V, R, S}); cls == 0 && (i%3 == 2 || thorough) {
			if c, s2 := doDecode(outb); c == 0 {
				g.addRecover(h, s2, sg.msg, c1, 1, signer, "via-compact-roundtrip", "")
			}
		}
		// the EIP-155 form through the compact codec (referee issue I6): V >= 256 from chain id 111 on and
		// CompactRSV keeps byte(V).  The codec cases are correspondence cases (model: V mod 256 survives);
		// recovery of the decoded signature: a true round trip (V < 256) must return the signer; a truncated
		// V carries no expectation (it recovers the signer only through known finding C05/v-truncated-to-byte)
		// except the witness chains 110 / 111 whose byte is 0 / 1: there the property's "compact form
		// round-trips" fails visibly (another address) -- known finding C05/compact-eip155-byte-0-1.
		if i%4 == 1 || i < 2 || thorough {
			wit := int64(111) - p // p = 1 -> chain 110 -> V = 256 -> byte 0; p = 0 -> chain 111 -> V = 257 -> byte 1
			for k, cc := range []int64{wit, wit + 128*(1+int64(i%5)), 109, 1001, c1, rc} {
				sd := sig{V, R, S}.data()
				sd.UpdateEIP155(cc)
				s155 := sig{sd.V, sd.R, sd.S}
				g.addCompact(s155, "eip155-V-any-chain")
				cls, outb := doCompact(s155)
				if cls != 0 {
					continue
				}
				if k < 3 {
					g.addDecode(outb, "eip155-compact")
				}
				if c, s2 := doDecode(outb); c == 0 {
					switch {
					case s155.V.Cmp(bi(256)) < 0:
						g.addRecover(h, s2, sg.msg, cc, 1, signer, "via-compact-eip155/V<256", "")
					case s2.V.Cmp(bi(1)) <= 0:
						g.addRecover(h, s2, sg.msg, cc, 1, signer, "via-compact-eip155/byte-0-1", knownKeyCompact)
					default:
						g.addRecover(h, s2, sg.msg, cc, 0, signer, "via-compact-eip155/truncated", "")
					}
				}
			}
		}
		// opposite parity in each convention
		if i%3 == 0 || thorough {
			g.addRecover(h, sig{bi(27 + 1 - p), R, S}, sg.msg, c1, 2, signer, "tamper/flip-parity-27/28", "")
		}
		if i%6 == 1 || thorough {
			g.addRecover(h, sig{bi(1 - p), R, S}, sg.msg, c1, 2, signer, "tamper/flip-parity-0/1", "")
		}
		if i%6 == 4 || thorough {
			g.addRecover(h, sig{validV(1-p, c1)[2], R, S}, sg.msg, c1, 2, signer, "tamper/flip-parity-eip155", "")
		}
		// EIP-155 V presented with another chain id: must not recover the signer, unless it is one of the
		// legitimate values for that chain too (it is not); congruent chain ids (mod 128) are the known finding
		other := c1 + 1
		g.addRecover(h, sig{validV(p, c1)[2], R, S}, sg.msg, other, 2, signer, "foreign-V/eip155-wrong-chain", "")
		if i%8 == 1 || thorough {
			g.addRecover(h, sig{validV(p, c1)[2], R, S}, sg.msg, c1+128, 2, signer, "foreign-V/eip155-chain+128", knownKeyTrunc)
			g.addRecover(h, sig{add(validV(p, c1)[2], bi(256)), R, S}, sg.msg, c1, 2, signer, "foreign-V/eip155+256", knownKeyTrunc)
			g.addRecover(h, sig{add(validV(p, c1)[2], bi(-256)), R, S}, sg.msg, c1, 2, signer, "foreign-V/eip155-256", knownKeyTrunc)
		}
		// selected V values
		foreign := []*big.Int{add(two63, validV(p, c1)[2]), add(two64, validV(p, c1)[2]), bi(2), bi(26), bi(29), bi(30), bi(31), bi(34), bi(-1), bi(-27), bi(27 + 256), bi(28 + 256), bi(256), bi(257),
			add(validV(0, c1)[2], bi(-1)), add(validV(1, c1)[2], bi(1)), add(validV(p, c1)[2], bi(2)),
			bi(1 << 31), bi(1 << 32), bi(1<<32 + 27), sub(two63, bi(1)), cp(two63), add(two63, bi(27)), cp(two64), add(two64, bi(27)), add(two64, bi(28)), add(two64, bi(p)),
			new(big.Int).Neg(sub(two64, bi(27))), new(big.Int).Neg(sub(two64, bi(28))), new(big.Int).Neg(two63), add(two64, validV(p, c1)[2]), add(two63, validV(p, c1)[2]), sub(validV(p, c1)[2], two64)}
		nf := 5
		if i < 4 || thorough {
			nf = len(foreign)
		}
		for j := 0; j < nf; j++ {
			v := foreign[(i*5+j)%len(foreign)]
			if j < 2 {
				v = foreign[j]
			}
			if nf == len(foreign) {
				v = foreign[j]
			}
			isValid := false
			for _, x := range validV(p, c1) {
				if x.Cmp(v) == 0 {
					isValid = true
				}
			}
			if isValid {
				continue
			}
			g.addRecover(h, sig{v, R, S}, sg.msg, c1, 2, signer, "foreign-V/selected", knownKeyTrunc)
		}
		// altered S and R
		nm1 := sub(curveN, bi(1))
		if i%4 == 0 || thorough {
			if S.Cmp(nm1) < 0 {
				g.addRecover(h, sig{V, R, add(S, bi(1))}, sg.msg, c1, 2, signer, "tamper/S+1", "")
			}
			if S.Cmp(bi(1)) > 0 && (i%8 == 0 || thorough) {
				g.addRecover(h, sig{V, R, sub(S, bi(1))}, sg.msg, c1, 2, signer, "tamper/S-1", "")
			}
			g.addRecover(h, sig{V, R, sub(curveN, S)}, sg.msg, c1, 2, signer, "tamper/S->n-S", "")
			g.addRecover(h, sig{V, add(R, bi(1)), S}, sg.msg, c1, 2, signer, "tamper/R+1", "")
			g.addRecover(h, sig{V, S, R}, sg.msg, c1, 2, signer, "tamper/swap-R-S", "")
		}
		if i%10 == 0 {
			// ECDSA malleability (S and parity altered together) yields the signer again: recorded, no expectation
			g.addRecover(h, sig{bi(27 + 1 - p), R, sub(curveN, S)}, sg.msg, c1, 0, signer, "malleable-twin(no-expectation)", "")
		}
		// out-of-range R, S: error, never a panic, never the signer
		bad := []sig{
			{V, bi(0), S}, {V, R, bi(0)}, {V, cp(curveN), S}, {V, R, cp(curveN)}, {V, add(R, curveN), S}, {V, R, add(S, curveN)},
			{V, cp(two256), S}, {V, R, cp(two256)}, {V, add(two256, R), S}, {V, R, add(two256, S)}, {V, sub(two256, bi(1)), S},
			{V, new(big.Int).Neg(R), S}, {V, R, new(big.Int).Neg(S)}, {V, new(big.Int).Neg(R), new(big.Int).Neg(S)}, {V, new(big.Int).Lsh(R, 256), S},
		}
		nb := 2
		if i < 3 || thorough {
			nb = len(bad)
		}
		for j := 0; j < nb; j++ {
			b := bad[(i*3+j)%len(bad)]
			if nb == len(bad) {
				b = bad[j]
			}
			if b.R.Cmp(R) == 0 && b.S.Cmp(S) == 0 {
				continue
			}
			g.addRecover(h, b, sg.msg, c1, 2, signer, "tamper/out-of-range-R-or-S", "")
		}
		// a different message
		if i%4 == 1 || thorough {
			m2 := append([]byte{}, sg.msg...)
			if len(m2) == 0 {
				m2 = []byte{0}
			} else {
				m2[r.Intn(len(m2))] ^= 1 << uint(r.Intn(8))
			}
			if !h && len(sg.msg) > 32 {
				m2 = append([]byte{}, sg.msg...)
				m2[r.Intn(32)] ^= 0x80
			}
			g.addRecover(h, sig{V, R, S}, m2, c1, 2, signer, "tamper/other-message", "")
		}
		// compact form of this signature in each convention (V is truncated to a byte by CompactRSV)
		if i%4 == 0 {
			g.addCompact(sig{V, R, S}, "valid-27/28")
			g.addCompact(sig{bi(p), R, S}, "valid-0/1")
			if v155 := validV(p, c1)[2]; v155.Cmp(bi(256)) < 0 {
				g.addCompact(sig{v155, R, S}, "eip155-V")
			}
		}
	}
	// digests congruent mod n: z and z+n recover the same key (ECDSA; not a defect) -- no expectation
	{
		k := keys[13]
		kp := kps[hx(k.b)]
		z := fromBytes(r.Bytes(15))
		cls, s := doSign(false, kp, be32(z))
		if cls == 0 {
			g.addRecover(false, s, be32(add(z, curveN)), 0, 0, kp.Address[:], "digest+n(no-expectation)", "")
		}
	}

	// ---- compact codec ----
	for _, v := range []int64{0, 1, 2, 26, 27, 28, 29, 35, 36, 37, 38, 127, 128, 129, 254, 255} {
		g.addCompact(sig{bi(v), fromBytes(r.Bytes(32)), fromBytes(r.Bytes(32))}, "V-sweep")
	}
	g.addCompact(sig{bi(27), bi(0), bi(0)}, "zero")
	g.addCompact(sig{bi(27), fromBytes(r.Bytes(31)), fromBytes(r.Bytes(30))}, "short-R-S")
	g.addCompact(sig{bi(27), sub(two256, bi(1)), sub(two256, bi(1))}, "max")
	g.addCompact(sig{bi(28), sub(two256, bi(1)), bi(1)}, "max-R")
	g.addCompact(sig{bi(0), bi(1), sub(two256, bi(1))}, "max-S")
	for _, n := range []int{0, 1, 32, 64, 65, 65, 65, 66, 130} {
		g.addDecode(r.Bytes(n), fmt.Sprintf("len-%d", n))
	}
	g.addDecode(make([]byte, 65), "len-65-zero")
	g.addDecode(bytes.Repeat([]byte{0xff}, 65), "len-65-ff")
	g.addDecode([]byte("wrong"), "len-5")

	// ---- Update* ----
	for _, v := range []*big.Int{bi(27), bi(28), bi(0), bi(1)} {
		for _, c := range chains {
			g.addUpdate(v, c)
		}
	}

	// ---- the V sweep: every V in [0, 2^17] for a few signatures ----
	{
		type sw struct {
			idx   int
			chain int64
		}
		sweeps := []sw{{0, 1}, {1, 1337}, {2, 65000}, {3, 0}, {4, 1 << 53}}
		if thorough {
			sweeps = append(sweeps, sw{5, 1001}, sw{6, 127}, sw{7, 1<<31 - 1}, sw{8, 65518})
		}
		const top = 1 << 17
		chunk := int64(32768)
		for _, x := range sweeps {
			sg := sigs[x.idx%len(sigs)]
			if sg.hashing || !inQuant(sg) {
				sg = sigs[0]
			}
			for lo := int64(0); lo <= top; lo += chunk {
				hi := lo + chunk - 1
				if hi >= top-1 {
					hi = top
				}
				if lo > top {
					break
				}
				g.addSweep(sg.s, sg.msg, x.chain, lo, hi, sg.kp.Address[:], fmt.Sprintf("chain-%d", x.chain))
				if hi == top {
					break
				}
			}
		}
	}

	// ---- round 3: state across calls, aliasing, concurrency, constructors (Go-side oracles, stateful.go) ----
	{
		var ss []seqSigned
		for i, sg := range sigs {
			if !inQuant(sg) {
				continue
			}
			x := seqSigned{sg.kp, sg.msg, sg.hashing, sg.s}
			ss = append(ss, x)
			sequence(g, x, i)
		}
		// chain id sweep: one SignDirect and one Sign signature
		nchain := 600
		if thorough {
			nchain = 20000
		}
		doneD, doneH := false, false
		for _, x := range ss {
			if x.hashing && !doneH {
				chainSweep(g, x, nchain)
				doneH = true
			} else if !x.hashing && !doneD {
				chainSweep(g, x, nchain)
				doneD = true
			}
		}
		rounds := 80
		if thorough {
			rounds = 400
		}
		concurrent(g, ss, rounds)
		ngen := 16
		if thorough {
			ngen = 200
		}
		constructors(g, ngen)
		checkRetained(g)
		st.ImplFailures = append(st.ImplFailures, failures...)
		if len(failCount) > 0 {
			st.Extra["go_oracle_failure_counts"] = failCount
		}
	}

	if err := g.w.Flush(); err != nil {
		panic(err)
	}
	// deterministic order of the distribution keys is given by encoding/json (sorted)
	keysD := make([]string, 0, len(st.Distribution))
	for k := range st.Distribution {
		keysD = append(keysD, k)
	}
	sort.Strings(keysD)
	st.Extra["cases_written"] = g.w.Count()
	st.Extra["signatures"] = len(sigs)
	if err := st.Write(filepath.Join(*out, "stats_C05.json")); err != nil {
		panic(err)
	}
	fmt.Printf("C05 harness: %d cases, %d evaluations, %d distinct, %d Go-side oracle failures\n", g.w.Count(), st.Evaluations, st.Distinct, len(st.ImplFailures))
}
